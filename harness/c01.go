package main

// C01 — every produced string is a well-formed redactable string.
// C03 — no envelope spans a line break.
//
// Both properties are decided on the same stream of outputs (every producer,
// every route), by the byte-level parser.

import (
	"reflect"
	"strings"

	"github.com/cockroachdb/redact"
)

const outputsRule = "outputs of (a) random print calls over the full value universe (structured and hostile raw formats, Sprint) through Sprint(f)/Fprint(f)/StringBuilder/Sprintfn/SafeFormat/HelperForErrorf, " +
	"(b) the mode-transition product: every sequence of 2 (quick) / 3 (thorough) adjacent pieces, each piece a payload over the marker-byte alphabet delivered through one of 20 carriers (literal, safe/unsafe operand, raw redactable, Write, per-byte and per-rune writers, Stringer, error, panic message, map key, struct field), executed as a SafeFormat script, in Sprintfn, on a StringBuilder and as a top-level Printf, " +
	"(c) random SafeWriter histories on the four implementations, (d) EscapeBytes, Join and JoinTo; "

func init() {
	register("C01", &monitor{
		run:  func(c *Ctx) { runOutputs(c, "C01") },
		rule: outputsRule + "oracle: the parser finds strictly alternating start/end markers; non-trivial = the output contains at least one envelope and the inputs contained a marker byte, a line feed or invalid UTF-8; distinct = distinct outputs",
	})
	register("C03", &monitor{
		run:  func(c *Ctx) { runOutputs(c, "C03") },
		rule: outputsRule + "oracle: no line feed inside an envelope; every line parses alone; Redact/StripMarkers line by line == on the whole; non-trivial = the output contains an envelope closed before or reopened after a line feed; distinct = distinct outputs",
	})
}

func fullOpts() genOpts {
	return genOpts{invalidUTF8: true, redactKinds: true, panics: true, safeKinds: true, addrs: true, starKinds: true, maxDepth: 3}
}

// ---- the two oracles ------------------------------------------------------------------

func c01oracle(w *Worker, out string, origin func() interface{}, hostile bool) {
	p := parse(out)
	if !p.WellFormed {
		w.Violate("C01 ill-formed", "output "+q(out)+" is ill-formed: "+p.Err, origin())
		return
	}
	// Guard of the oracle itself: the library's regexp view must agree with the parser's.
	if got := string(redact.RedactableString(out).Redact()); got != refRedact(p) {
		w.Violate("C01 parser-vs-Redact", "Redact("+q(out)+")="+q(got)+" but the parser's view gives "+q(refRedact(p)), origin())
	}
	if len(p.Env) > 0 && hostile {
		w.Nontrivial(hashStr(out))
	}
	w.Count("envelopes", int64(len(p.Env)))
}

func c03oracle(w *Worker, out string, origin func() interface{}, hostile bool) {
	p := parse(out)
	if !p.WellFormed {
		// Ill-formed as a whole is C01's business, unless a line feed is
		// involved: then some line is not well-formed alone.
		if strings.Contains(out, "\n") {
			for _, l := range strings.Split(out, "\n") {
				if lp := parse(l); !lp.WellFormed {
					w.Violate("C03 line-ill-formed", "line "+q(l)+" of output "+q(out)+" is not well-formed alone", origin())
					return
				}
			}
		}
		return
	}
	if !p.LineSafe {
		w.Violate("C03 line-feed-in-envelope", "output "+q(out)+" has a line feed between a start marker and its end marker", origin())
		return
	}
	if !strings.Contains(out, "\n") {
		return
	}
	rs := redact.RedactableString(out)
	lines := strings.Split(out, "\n")
	red := make([]string, len(lines))
	st := make([]string, len(lines))
	for i, l := range lines {
		if lp := parse(l); !lp.WellFormed {
			w.Violate("C03 line-ill-formed", "line "+q(l)+" of output "+q(out)+" is not well-formed alone", origin())
			return
		}
		red[i] = string(redact.RedactableString(l).Redact())
		st[i] = redact.RedactableString(l).StripMarkers()
	}
	if j := strings.Join(red, "\n"); j != string(rs.Redact()) {
		w.Violate("C03 linewise-redact", "redacting line by line gives "+q(j)+", the whole gives "+q(string(rs.Redact())), origin())
	}
	if j := strings.Join(st, "\n"); j != rs.StripMarkers() {
		w.Violate("C03 linewise-strip", "stripping line by line gives "+q(j)+", the whole gives "+q(rs.StripMarkers()), origin())
	}
	w.Count("outputs_with_line_feeds", 1)
	if p.Splits > 0 || splitAfterLF(out) {
		w.Count("outputs_with_split_envelopes", 1)
		w.Nontrivial(hashStr(out))
	}
}

func splitAfterLF(s string) bool { return strings.Contains(s, "\n"+startM) }

// ---- mode-transition pieces -------------------------------------------------------------

var piecePayloads = []string{"a", "\n", startM, endM, "\xe2", "\x80", "\xb9", "\xe2\x80", "\x80\xb9", "",
	"a\n", "\na", startM + "a", "a" + endM, endM + startM, startM + endM, "\n\n", "a\xe2", "\xbaa", startM + "\n", "\xc3", "\xc3" + startM, "º", "‰", "☺", "⁹"}

var pieceCarriers = []string{"lit", "sSafeString", "sUnsafeString", "sSafeBytes", "sUnsafeBytes", "sWrite", "sWriteString",
	"printStr", "printSafe", "printRS", "printBytes", "perSafeByte", "perUnsafeByte", "perSafeRune", "perUnsafeRune",
	"printStringer", "printErr", "printPanic", "printMapKey", "printField"}

type piece2 struct {
	carrier string
	payload string
}

// pieceSteps turns a piece into script steps.
func pieceSteps(p piece2) []*D {
	s := p.payload
	one := func(k string) []*D { return []*D{dS(k, s)} }
	switch p.carrier {
	case "lit":
		return []*D{{K: "sPrintf", S: QS(strings.ReplaceAll(s, "%", "%%"))}}
	case "sSafeString", "sUnsafeString", "sSafeBytes", "sUnsafeBytes", "sWrite", "sWriteString":
		return one(p.carrier)
	case "printStr":
		return []*D{dSub("sPrint", dS("string", s))}
	case "printSafe":
		return []*D{dSub("sPrint", dSub("Safe", dS("string", s)))}
	case "printRS":
		return []*D{dSub("sPrint", dSub("RS", dS("string", s)))}
	case "printBytes":
		return []*D{{K: "sPrintf", S: "%s", Sub: []*D{dS("bytes", s)}}}
	case "perSafeByte", "perUnsafeByte":
		var out []*D
		for i := 0; i < len(s); i++ {
			out = append(out, dN("s"+p.carrier[3:], int64(s[i])))
		}
		return out
	case "perSafeRune", "perUnsafeRune":
		var out []*D
		for _, r := range s {
			out = append(out, dN("s"+p.carrier[3:], int64(r)))
		}
		return out
	case "printStringer":
		return []*D{dSub("sPrint", dS("Stringer", s))}
	case "printErr":
		return []*D{{K: "sPrintf", S: "%v", Sub: []*D{dS("Err", s)}}}
	case "printPanic":
		return []*D{dSub("sPrint", &D{K: "PanicStringer", S: QS(s), N: 0})}
	case "printMapKey":
		return []*D{dSub("sPrint", &D{K: "map", Sub: []*D{dS("string", s), dN("int", 1)}})}
	case "printField":
		return []*D{{K: "sPrintf", S: "%+v", Sub: []*D{dSub("S2", dS("string", s), dSub("Safe", dS("string", s)))}}}
	}
	panic("pieceSteps " + p.carrier)
}

// pieceFormat turns a piece sequence into a top-level Printf call.
func piecesAsCall(ps []piece2) *Call {
	c := &Call{}
	var f strings.Builder
	for _, p := range ps {
		s := p.payload
		add := func(verb string, d *D) { f.WriteString(verb); c.Args = append(c.Args, d) }
		switch p.carrier {
		case "lit", "sSafeString", "sSafeBytes", "perSafeByte", "perSafeRune":
			f.WriteString(strings.ReplaceAll(s, "%", "%%"))
		case "printSafe":
			add("%v", dSub("Safe", dS("string", s)))
		case "printRS":
			add("%v", dSub("RS", dS("string", s)))
		case "printBytes", "sUnsafeBytes", "perUnsafeByte":
			add("%s", dS("bytes", s))
		case "printStringer":
			add("%v", dS("Stringer", s))
		case "printErr":
			add("%v", dS("Err", s))
		case "printPanic":
			add("%v", &D{K: "PanicStringer", S: QS(s)})
		case "printMapKey":
			add("%v", &D{K: "map", Sub: []*D{dS("string", s), dN("int", 1)}})
		case "printField":
			add("%+v", dSub("S2", dS("string", s), dSub("Safe", dS("string", s))))
		case "sWrite", "sWriteString":
			add("%v", dS("Fmter", s))
		default:
			add("%s", dS("string", s))
		}
	}
	c.Raw = QS(f.String())
	if c.Raw == "" {
		c.Raw = "%%"
	}
	return c
}

func allPieces() []piece2 {
	var out []piece2
	for _, c := range pieceCarriers {
		for _, p := range piecePayloads {
			if strings.HasSuffix(c, "Rune") && !validUTF8(p) {
				continue
			}
			out = append(out, piece2{c, p})
		}
	}
	return out
}

func validUTF8(s string) bool {
	for _, r := range s {
		if r == 0xfffd {
			return false
		}
	}
	return true
}

// runScript executes a SafeFormat script through the three script routes.
func runScript(route int, steps []*D) (o outcome) {
	defer func() {
		if r := recover(); r != nil {
			o.panicked = true
			o.pval = r
		}
	}()
	bc := newBuildCtx()
	switch route {
	case 0:
		o.out = string(redact.Sprint(tSafeFmt{steps, func() *buildCtx { return bc }}))
	case 1:
		o.out = string(redact.Sprintfn(func(p redact.SafePrinter) {
			for _, st := range steps {
				bc.runStep(p, st, 'v')
			}
		}))
	default:
		var b redact.StringBuilder
		for _, st := range steps {
			bc.runStep(&b, st, 'v')
		}
		o.out = string(b.RedactableString())
	}
	return o
}

var scriptRouteNames = []string{"Sprint(SafeFormatter script)", "Sprintfn(script)", "StringBuilder(script)"}

func registerStdTypes() {
	redact.RegisterSafeType(reflect.TypeOf(tRegInt(0)))
	redact.RegisterSafeType(reflect.TypeOf(tRegDur(0)))
}

// runOutputs drives every producer and hands each output to the property's oracle.
func runOutputs(c *Ctx, prop string) {
	registerStdTypes()
	oracle := c01oracle
	if prop == "C03" {
		oracle = c03oracle
	}
	o := fullOpts()
	if prop == "C03" {
		// raise the share of line feeds
		for i := 0; i < 6; i++ {
			payloadValid = append(payloadValid, "\n", "a\nb", "\n"+startM)
		}
	}
	// (b) mode-transition product.
	pieces := allPieces()
	np := int64(len(pieces))
	depth := int(c.pick(2, 3))
	total := np * np
	if depth == 3 {
		total *= np
	}
	c.AddCount("pieces", np)
	c.ParallelFor(total, func(w *Worker, i int64) {
		ps := []piece2{pieces[i%np], pieces[(i/np)%np]}
		if depth == 3 {
			ps = append(ps, pieces[i/(np*np)])
		}
		var steps []*D
		for _, p := range ps {
			steps = append(steps, pieceSteps(p)...)
		}
		origin := func(route string) func() interface{} {
			return func() interface{} {
				return map[string]interface{}{"pieces": piecesString(ps), "route": route, "steps": steps}
			}
		}
		for route := 0; route < 3; route++ {
			out := runScript(route, steps)
			w.Eval(1)
			if out.panicked {
				w.Count("script_panicked", 1)
				continue
			}
			oracle(w, out.out, origin(scriptRouteNames[route]), true)
		}
		call := piecesAsCall(ps)
		out, _ := runCall(routeS, call)
		w.Eval(1)
		if !out.panicked {
			oracle(w, out.out, func() interface{} {
				return map[string]interface{}{"pieces": piecesString(ps), "route": "Sprintf", "call": call}
			}, true)
		}
		if i%200003 == 1 {
			w.Sample(map[string]interface{}{"pieces": piecesString(ps), "Sprintf_format_q": q(call.format()), "output_q": q(out.out)})
		}
	})
	c.AddCount("transition_sequences", total)
	// (a) random calls, all routes.
	n := c.pick(1000000, 20000000)
	c.ParallelFor(n, func(w *Worker, i int64) {
		r := newRng(c.Seed, 0xc01, uint64(i))
		call := randCall(r, o)
		route := int(i % 6)
		if route == routeErrorf && call.Sp {
			route = routeS
		}
		out, built := runCall(route, call)
		w.Eval(1)
		w.Count("random_calls", 1)
		if !built {
			w.Count("operand_build_panicked", 1)
			return
		}
		if out.panicked {
			w.Count("call_panicked", 1)
			return
		}
		oracle(w, out.out, func() interface{} { return map[string]interface{}{"call": call, "route": routeNames[route]} }, true)
		if i%100003 == 1 {
			w.Sample(map[string]interface{}{"call": call.String(), "route": routeNames[route], "output_q": q(out.out)})
		}
	})
	// (a') the fixed list of calls at unusual scale (many directives and operands, deep nesting, long containers and strings), all routes.
	sc := scaleCalls()
	c.AddCount("scale_calls", int64(len(sc)))
	c.ParallelFor(int64(len(sc))*6, func(w *Worker, i int64) {
		call := sc[i/6]
		route := int(i % 6)
		if route == routeErrorf && call.Sp {
			return
		}
		out, built := runCall(route, call)
		w.Eval(1)
		if !built || out.panicked {
			w.Count("scale_call_panicked", 1)
			return
		}
		oracle(w, out.out, func() interface{} { return map[string]interface{}{"scale_call_index": i / 6, "format_prefix_q": q(clip(call.format(), 80)), "operands": len(call.Args), "route": routeNames[route]} }, true)
	})
	// (c) SafeWriter histories.
	nh := c.pick(300000, 5000000)
	c.ParallelFor(nh, func(w *Worker, i int64) {
		r := newRng(c.Seed, 0xc01c, uint64(i))
		h := randHistory(r, 20, 30)
		im := c09impls[i%4]
		out, pan := im.run(h)
		w.Eval(1)
		w.Count("histories", 1)
		if pan != nil {
			return
		}
		oracle(w, out, func() interface{} { return map[string]interface{}{"history": historyString(h), "impl": im.name} }, true)
	})
	// (c') Directed histories of three calls: a long payload (around the sizes at which an implementation might switch
	// strategy: 64, 128, 256 bytes pending) ending inside a marker, a call that switches side without content (or
	// nothing), and a payload that would complete the marker, through every pair of string-taking methods.
	var split [][]Op
	mids := []Op{{M: "UnsafeString"}, {M: "SafeString"}, {M: "UnsafeBytes"}, {M: "Write"}, {M: "Print", A: "none"}, {M: "Printf", A: "none"}, {M: "UnsafeString", S: "\n"}}
	for _, pad := range []int{20, 63, 64, 65, 100, 127, 128, 129, 200, 255, 256, 257, 300, 600} {
		for _, tail := range []string{"\xe2", "\xe2\x80"} {
			for _, cont := range []string{"\x80\xb9", "\xb9", "\xba", "\x80\xba", "\x80"} {
				for _, m1 := range stringMethods {
					for _, m2 := range append(append([]string{}, stringMethods...), "PrintLiteralRedactable") {
						body := strings.Repeat("p", pad)
						if (pad+len(tail)+len(cont))%3 == 0 {
							body = body[:pad/2] + endM + body[pad/2:] // a marker earlier in the same payload (the escaper is already copying)
						}
						first, last := Op{M: m1, S: body + tail}, Op{M: m2, S: cont + "public"}
						split = append(split, []Op{first, last})
						for _, mid := range mids {
							split = append(split, []Op{first, mid, last}, []Op{first, mid, last, {M: "UnsafeString", S: "secret"}})
						}
					}
				}
			}
		}
	}
	c.ParallelFor(int64(len(split)), func(w *Worker, i int64) {
		h := split[i]
		for _, im := range c09impls {
			out, pan := im.run(h)
			w.Eval(1)
			if pan != nil {
				continue
			}
			oracle(w, out, func() interface{} { return map[string]interface{}{"history": historyString(h), "impl": im.name} }, true)
		}
		w.Count("directed_split_marker_histories", 1)
	})
	// (d) EscapeBytes, Join, JoinTo.
	nj := c.pick(60000, 2000000)
	c.ParallelFor(nj, func(w *Worker, i int64) {
		r := newRng(c.Seed, 0xc01d, uint64(i))
		func() {
			defer func() { recover() }()
			b := []byte(randPayload(r, o) + piecePayloads[r.Intn(len(piecePayloads))] + randPayload(r, o))
			eb := string(redact.EscapeBytes(b))
			w.Eval(1)
			oracle(w, eb, func() interface{} { return map[string]interface{}{"EscapeBytes_q": q(string(b))} }, true)
			var rs []redact.RedactableString
			for k, n := 0, r.Intn(4); k < n; k++ {
				rs = append(rs, redact.RedactableString(genLibraryOutput(r)))
			}
			delim := redact.RedactableString(genLibraryOutput(r))
			j := string(redact.Join(delim, rs))
			w.Eval(1)
			oracle(w, j, func() interface{} { return map[string]interface{}{"Join_delim_q": q(string(delim)), "n": len(rs)} }, true)
			var sb redact.StringBuilder
			bc := newBuildCtx()
			o2 := o
			o2.panics = false
			vals := bc.reals([]*D{randD(r, 2, o2), randD(r, 2, o2)})
			redact.JoinTo(&sb, delim, vals)
			w.Eval(1)
			oracle(w, string(sb.RedactableString()), func() interface{} { return map[string]interface{}{"JoinTo_delim_q": q(string(delim))} }, true)
		}()
		w.Count("escape_join_cases", 1)
	})
	c.res.Exhaustive = false
	c.res.Bound = "mode-transition product complete for " + itoa(depth) + " adjacent pieces over " + itoa(int(np)) + " (carrier, payload) pairs; everything else sampled"
}

func piecesString(ps []piece2) string {
	var b strings.Builder
	for i, p := range ps {
		if i > 0 {
			b.WriteString(" | ")
		}
		b.WriteString(p.carrier + ":" + q(p.payload))
	}
	return b.String()
}
