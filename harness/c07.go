package main

// C07 — Redact and StripMarkers are exact, idempotent projections.
//
// Exhaustive enumeration of all strings over the alphabet the two operations
// can distinguish, up to a length bound; sampled longer strings; library
// outputs (phase "outputs", see outputs.go).

import (
	"bytes"
	"strings"

	"github.com/cockroachdb/redact"
)

var c07alpha = []string{startM, endM, "\xc3\x97", "\n", "a", "\xe2", "\x80", "\xb9", "\xba"}

// c07extra: symbols that neither operation may alter, for the sampled strings (the replacement character itself,
// runes of every encoded length, the escape character, bytes that are invalid on their own).
var c07extra = []string{"\ufffd", "é", "日", "\U0001f600", "?", " ", "\xff", "\xc3", "\xef\xbf", "\r", "\x00"}

func init() {
	register("C07", &monitor{
		run: runC07,
		rule: "all strings over {start marker, end marker, cross, LF, 'a', E2, 80, B9, BA} up to the length bound (exhaustive), " +
			"random strings over the same alphabet (plus U+FFFD, runes of every encoded length, '?', invalid bytes) up to 48 symbols and a few of 200-2200, and outputs produced by the library for random print calls and builder histories; " +
			"a case is non-trivial when the string contains at least one marker token; distinct = distinct strings (hash bitmap, conservative)",
	})
}

// projCheck applies the C07 oracles to one string. origin is only used in messages.
func projCheck(w *Worker, s string, origin string) {
	w.Eval(1)
	p := parse(s)
	rs := redact.RedactableString(s)
	red := string(rs.Redact())
	st := rs.StripMarkers()
	in := []byte(s)
	rb := redact.RedactableBytes(in)
	bred := string(rb.Redact())
	bst := string(rb.StripMarkers())
	viol := func(sig, msg string) {
		w.Violate("C07 "+sig, msg+" input="+q(s)+" origin="+origin, map[string]string{"input_q": q(s), "origin": origin})
	}
	if !bytes.Equal(in, []byte(s)) {
		w.Count("byte_slice_input_modified", 1) // observation only: the statement does not speak about the input slice
	}
	if bred != red {
		viol("variants-disagree", "RedactableBytes.Redact="+q(bred)+" RedactableString.Redact="+q(red))
	}
	if bst != st {
		viol("variants-disagree", "RedactableBytes.StripMarkers="+q(bst)+" RedactableString.StripMarkers="+q(st))
	}
	if string(rs.ToBytes()) != s || string(rb.ToString()) != s {
		viol("conversion", "ToBytes/ToString do not preserve the content")
	}
	{
		// the string made from a byte slice is the caller's to keep: later writes to the slice do not reach it
		src := []byte(s)
		kept := redact.RedactableBytes(src).ToString()
		for i := range src {
			src[i] = '#'
		}
		if string(kept) != s {
			viol("conversion", "RedactableBytes.ToString() changed when the source slice was overwritten afterwards: "+q(string(kept)))
		}
	}
	if string(rs.ToBytes().Redact()) != red || rb.ToString().StripMarkers() != st {
		viol("conversion", "conversion followed by projection differs from direct projection")
	}
	if again := string(redact.RedactableString(red).Redact()); again != red {
		viol("redact-not-idempotent", "Redact="+q(red)+" Redact(Redact)="+q(again))
	}
	if hasMarker(st) {
		if st == stripTokens(s) {
			// Exactly the delimiters were removed, and the bytes around a
			// removed delimiter form a new marker: the two clauses of the
			// statement cannot both hold on such input. Listed as a known
			// finding (known_findings.json); anything else is a violation.
			w.Violate("C07 StripMarkers reassembly", "StripMarkers output contains a marker assembled from partial-marker bytes around a removed delimiter: "+q(st)+" input="+q(s),
				map[string]string{"input_q": q(s), "origin": origin})
			w.Count("strip_reassembly", 1)
		} else {
			viol("strip-leaves-marker", "StripMarkers="+q(st)+" still contains a marker")
		}
	}
	if !p.WellFormed {
		w.Count("ill_formed", 1)
		return
	}
	w.Count("well_formed", 1)
	if len(p.Env) > 0 {
		w.Count("with_envelopes", 1)
	}
	if want := refRedact(p); red != want {
		viol("redact-wrong", "Redact="+q(red)+" want "+q(want))
		return
	}
	if want := refStrip(p); st != want {
		viol("strip-wrong", "StripMarkers="+q(st)+" want "+q(want))
	}
	pr := parse(red)
	if !pr.WellFormed || len(pr.Env) != len(p.Env) || strings.Join(pr.Safe, "\x00") != strings.Join(p.Safe, "\x00") {
		viol("redact-structure", "Redact="+q(red)+" does not keep safe text / envelope count")
	}
	for _, e := range pr.Env {
		if e != "\xc3\x97" {
			viol("redact-structure", "envelope content "+q(e)+" after Redact")
		}
	}
}

func runC07(c *Ctx) {
	// The exported marker constants are the ones the projections work with.
	if string(redact.StartMarker()) != startM || string(redact.EndMarker()) != endM || string(redact.RedactedMarker()) != redactedM {
		c.Violate("C07 marker-constants", "StartMarker/EndMarker/RedactedMarker are not the documented markers", map[string]string{"start_q": q(string(redact.StartMarker())), "end_q": q(string(redact.EndMarker())), "redacted_q": q(string(redact.RedactedMarker()))})
	}
	if got := string(redact.RedactableString(startM + "x" + endM).Redact()); got != string(redact.RedactedMarker()) {
		c.Violate("C07 marker-constants", "Redact of one envelope gives "+q(got)+", RedactedMarker() is "+q(string(redact.RedactedMarker())), nil)
	}
	// The slices handed out by the accessors are the caller's: writing into them must not reach the markers the
	// library itself works with.
	for _, acc := range []func() []byte{redact.StartMarker, redact.EndMarker, redact.RedactedMarker} {
		b := acc()
		for i := range b {
			b[i] = 'X'
		}
	}
	if string(redact.StartMarker()) != startM || string(redact.EndMarker()) != endM || string(redact.RedactedMarker()) != redactedM ||
		string(redact.RedactableBytes(startM+"a"+endM).Redact()) != redactedM || string(redact.RedactableString(startM+"a"+endM).Redact()) != redactedM ||
		string(redact.Sprint("x"+startM+"y"+endM)) != startM+"x?y?"+endM || string(redact.RedactableBytes("k"+startM+"a"+endM).StripMarkers()) != "ka" {
		c.Violate("C07 marker-accessor-aliasing", "after a caller overwrote the slices returned by StartMarker/EndMarker/RedactedMarker the library's own markers changed: Sprint(\"x‹y›\")="+
			q(string(redact.Sprint("x"+startM+"y"+endM)))+" RedactableBytes(\"‹a›\").Redact()="+q(string(redact.RedactableBytes(startM+"a"+endM).Redact())), nil)
	}
	maxLen := int(c.pick(6, 9))
	k := int64(len(c07alpha))
	// Exhaustive part.
	var total int64
	pow := int64(1)
	offs := []int64{}
	for l := 0; l <= maxLen; l++ {
		offs = append(offs, total)
		total += pow
		pow *= k
	}
	c.ParallelFor(total, func(w *Worker, i int64) {
		l := 0
		for l+1 < len(offs) && offs[l+1] <= i {
			l++
		}
		j := i - offs[l]
		var sb strings.Builder
		for n := 0; n < l; n++ {
			sb.WriteString(c07alpha[j%k])
			j /= k
		}
		s := sb.String()
		projCheck(w, s, "enum")
		if hasMarker(s) {
			w.Nontrivial(hashStr(s))
		}
		if i%200003 == 7 {
			w.Sample(map[string]string{"input_q": q(s), "redact_q": q(string(redact.RedactableString(s).Redact())), "strip_q": q(redact.RedactableString(s).StripMarkers())})
		}
	})
	c.AddCount("exhaustive_strings", total)
	// Sampled longer strings.
	nRand := c.pick(200000, 5000000)
	c.ParallelFor(nRand, func(w *Worker, i int64) {
		r := newRng(c.Seed, 0xc07, uint64(i))
		n := maxLen + 1 + r.Intn(48-maxLen)
		if r.Chance(1, 60) {
			n = 200 + r.Intn(2000)
		}
		if i%4000 == 11 {
			// beyond the sizes of everyday strings: outputs around 4 KiB, 64 KiB and 128 KiB (chunked scanners, 16-bit offsets)
			n = []int{2048, 4096, 30000, 32768, 65536, 70000}[(i/4000)%6] + r.Intn(5)
			w.Count("very_long_strings", 1)
		}
		var sb strings.Builder
		wf := r.Bool() // half of the samples are made well-formed by construction
		open := false
		for j := 0; j < n; j++ {
			a := c07alpha[r.Intn(len(c07alpha))]
			if r.Chance(1, 5) {
				a = c07extra[r.Intn(len(c07extra))] // text the two operations must pass through untouched
			}
			if wf {
				if a == startM && open {
					a = endM
				} else if a == endM && !open {
					a = startM
				}
				if a == startM {
					open = true
				} else if a == endM {
					open = false
				}
			}
			sb.WriteString(a)
		}
		if wf && open {
			sb.WriteString(endM)
		}
		s := sb.String()
		projCheck(w, s, "random")
		if hasMarker(s) {
			w.Nontrivial(hashStr(s))
		}
		w.Count("random_strings", 1)
	})
	// Library outputs.
	nOut := c.pick(100000, 3000000)
	c.ParallelFor(nOut, func(w *Worker, i int64) {
		r := newRng(c.Seed, 0xc07b, uint64(i))
		s := genLibraryOutput(r)
		projCheck(w, s, "library-output")
		if hasMarker(s) {
			w.Nontrivial(hashStr(s))
		}
		w.Count("library_outputs", 1)
		if i%50021 == 3 {
			w.Sample(map[string]string{"library_output_q": q(s), "redact_q": q(string(redact.RedactableString(s).Redact()))})
		}
	})
	c.res.Exhaustive = true
	c.res.Bound = "every string of at most " + itoa(maxLen) + " symbols over the 9-symbol alphabet"
	c.res.Assumptions = []string{"byte-level and rune-level recognition of the markers coincide (both markers start with a UTF-8 lead byte)"}
}
