package main

// C10 — escaping removes every marker from arbitrary bytes and nothing else.

import (
	"bytes"
	"strings"
	"unicode/utf8"

	"github.com/cockroachdb/redact"
	"github.com/cockroachdb/redact/interfaces"
)

var c10alpha = []byte{0xe2, 0x80, 0xb9, 0xba, 'a', ' ', '\n', '?', 0xc3}

// c10tokens: whole runes and fragments the 9-byte alphabet cannot spell.
var c10tokens = []string{"\ufffd", startM, endM, "é", "日", "\U0001F600", "a", "\n", "\xef", "\xbf", "\xbd", "\xf0\x9f", "?"}

func init() {
	register("C10", &monitor{
		run: runC10,
		rule: "all byte strings over {E2,80,B9,BA,'a',' ',LF,'?',C3} up to the length bound (exhaustive) x every start offset x both line-split settings for the internal routine, " +
			"every sequence of up to 4 (thorough 5) tokens over {U+FFFD, both markers, 2-, 3- and 4-byte runes, fragments of those, 'a', LF, '?'}, " +
			"runs of 0-150 ordinary bytes followed by a marker / partial marker / adjacent markers in 5 x 4 contexts, " +
			"plus EscapeMarkers, EscapeBytes and ManualBuffer (safe and unsafe mode, every 2-way split of the payload; 3-way in the thorough tier) on the same strings, and random longer strings; " +
			"non-trivial = the string contains a marker, a line feed, or ends in a truncated multi-byte sequence; distinct = distinct strings",
	})
}

// truncatedTail: b ends in a proper prefix of a multi-byte encoding.
func truncatedTail(b []byte) bool {
	for k := 1; k <= 3 && k <= len(b); k++ {
		t := b[len(b)-k:]
		if t[0] >= 0xc0 && !utf8.FullRune(t) {
			return true
		}
	}
	return false
}

// validTail: b is empty or ends with a valid rune.
func validTail(b []byte) bool {
	if len(b) == 0 {
		return true
	}
	r, s := utf8.DecodeLastRune(b)
	return !(r == utf8.RuneError && s == 1)
}

// qmOK checks the rule for the '?' that may follow the escaped text:
// required after a truncated tail, forbidden after a valid tail, permitted
// after any other ill-formed tail.
func qmOK(got, want string, b []byte) bool {
	switch {
	case truncatedTail(b):
		return got == want+"?"
	case validTail(b):
		return got == want
	default:
		return got == want || got == want+"?"
	}
}

// refInternal is a straight-line reference for the internal escape routine.
func refInternal(buf []byte, startLoc int, brk bool) string {
	var out []byte
	out = append(out, buf[:startLoc]...)
	s := string(buf)
	for i := startLoc; i < len(buf); {
		switch {
		case brk && buf[i] == '\n':
			if bytes.HasSuffix(out, []byte(startM)) {
				out = out[:len(out)-3]
			} else {
				out = append(out, endM...)
			}
			j := i
			for j < len(buf) && buf[j] == '\n' {
				j++
			}
			out = append(out, buf[i:j]...)
			out = append(out, startM...)
			i = j
		case tok(s, i) != 0:
			out = append(out, '?')
			i += 3
		default:
			out = append(out, buf[i])
			i++
		}
	}
	return string(out)
}

func dropEmptyEnvelopes(s string) string {
	for strings.Contains(s, startM+endM) {
		s = strings.ReplaceAll(s, startM+endM, "")
	}
	return s
}

func c10check(w *Worker, b []byte, threeWay bool) {
	s := string(b)
	cs := func() interface{} { return map[string]string{"bytes_q": q(s)} }
	viol := func(sig, msg string) { w.Violate("C10 "+sig, msg+" input="+q(s), cs()) }
	defer func() {
		if r := recover(); r != nil {
			viol("panic", "panic: "+sprint(r))
		}
	}()
	orig := append([]byte(nil), b...)
	want := esc(s)

	// (A) EscapeMarkers
	em := redact.EscapeMarkers(b)
	w.Eval(1)
	if string(em) != want {
		viol("EscapeMarkers", "EscapeMarkers="+q(string(em))+" want "+q(want))
	}
	if hasMarker(string(em)) {
		viol("EscapeMarkers", "EscapeMarkers output contains a marker: "+q(string(em)))
	}
	if again := redact.EscapeMarkers(em); !bytes.Equal(again, em) {
		viol("EscapeMarkers", "EscapeMarkers not idempotent")
	}

	// (B) EscapeBytes
	eb := string(redact.EscapeBytes(b))
	w.Eval(1)
	p := parse(eb)
	if !p.WellFormed || !p.LineSafe {
		viol("EscapeBytes", "EscapeBytes="+q(eb)+" not well-formed/line-safe: "+p.Err)
	} else {
		if st := refStrip(p); !qmOK(st, want, b) {
			viol("EscapeBytes", "EscapeBytes="+q(eb)+" stripped="+q(st)+" want "+q(want)+" (+'?' iff truncated tail)")
		}
		if so := safeOnly(p); so != lfOnly(s) {
			viol("EscapeBytes", "EscapeBytes="+q(eb)+": text outside envelopes "+q(so)+" is not exactly the line feeds of the input")
		}
		red := string(redact.RedactableString(eb).Redact())
		if strings.ReplaceAll(strings.ReplaceAll(red, redactedM, ""), "\n", "") != "" {
			viol("EscapeBytes", "Redact(EscapeBytes)="+q(red)+" has more than redacted markers and line feeds")
		}
		if strings.Count(red, "\n") != strings.Count(s, "\n") {
			viol("EscapeBytes", "Redact(EscapeBytes)="+q(red)+" does not keep the line feeds")
		}
	}

	// (C) the internal routine, every start offset, both settings.
	stride := 1
	if len(b) > 64 {
		stride = len(b)/16 + 1 // long (sampled) strings: a sample of offsets and split points
	}
	for start := 0; start <= len(b); start += stride {
		for _, brk := range []bool{false, true} {
			in := append(make([]byte, 0, len(b)+8), b...) // spare capacity: in-place appends would be visible
			res := redact.VerifInternalEscapeBytes(in, start, brk, false)
			w.Eval(1)
			if !bytes.Equal(in, orig) {
				// Observation, not a verdict: no statement forbids an implementation that
				// edits in place as long as the accessors stay pure (C13 decides that).
				w.Count("internal_routine_modified_its_input", 1)
				copy(in, orig)
			}
			if !validTail(b[:start]) {
				// start offset inside a multi-byte sequence: outside the
				// routine's precondition; only "no panic, input unmodified".
				w.Count("internal_precondition_off", 1)
				continue
			}
			pre := b[:start]
			elide := brk && start < len(b) && b[start] == '\n' && bytes.HasSuffix(pre, []byte(startM))
			if elide {
				pre = pre[:len(pre)-3]
			}
			if !bytes.HasPrefix(res, pre) {
				viol("internal-prefix", "prefix before start="+itoa(start)+" altered: "+q(string(res)))
				continue
			}
			ref := refInternal(b, start, brk)
			got := string(res)
			gn, rn := dropEmptyEnvelopes(got), dropEmptyEnvelopes(ref)
			if !qmOK(gn, rn, b) {
				viol("internal-result", "InternalEscapeBytes(start="+itoa(start)+",brk="+sprint(brk)+")="+q(got)+" want "+q(ref)+" (+'?' iff truncated tail)")
			}
			if hasMarker(got[len(pre):]) && !brk {
				viol("internal-marker", "marker after the start offset in "+q(got))
			}
		}
	}
	if !bytes.Equal(b, orig) {
		w.Count("public_function_modified_its_input", 1) // observation only
		copy(b, orig)
	}

	// (D) ManualBuffer, both escaping modes, write splitting.
	for _, kind := range []int{0, 1} {
		one := manualWrite(kind, [][]byte{b}, 0)
		w.Eval(1)
		p := parse(one)
		if !p.WellFormed || !p.LineSafe {
			viol("buffer", "ManualBuffer(kind="+itoa(kind)+")="+q(one)+" not well-formed/line-safe")
			continue
		}
		if st := refStrip(p); !qmOK(st, want, b) {
			viol("buffer", "ManualBuffer(kind="+itoa(kind)+")="+q(one)+" stripped="+q(st)+" want "+q(want))
		}
		if kind == 0 && len(p.Env) != 0 {
			viol("buffer", "safe-escaped write produced an envelope: "+q(one))
		}
		if kind == 1 && safeOnly(p) != lfOnly(s) {
			viol("buffer", "unsafe write left text outside envelopes: "+q(one))
		}
		c1 := canon(one)
		viaBuilder := len(b) > 8 || (len(b) > 1 && hashStr(s)%6 == 0) // all longer strings, a sixth of the enumerated ones
		// split points: every position (short strings) or a stride of them plus the last 8 and, up to 16 times,
		// the 3 positions in and after each E2 byte (long strings)
		var cuts []int
		for i := 0; i <= len(b); i += stride {
			cuts = append(cuts, i)
		}
		if stride > 1 {
			for i := len(b) - 8; i <= len(b); i++ {
				if i > 0 {
					cuts = append(cuts, i)
				}
			}
			for i, n := 0, 0; i < len(b) && n < 16; i++ {
				if b[i] == 0xe2 {
					n++
					for k := 1; k <= 3 && i+k <= len(b); k++ {
						cuts = append(cuts, i+k)
					}
				}
			}
		}
		for _, i := range cuts {
			two := manualWrite(kind, [][]byte{b[:i], b[i:]}, i)
			w.Eval(1)
			if canon(two) != c1 {
				viol("split", "kind="+itoa(kind)+" split at "+itoa(i)+": "+q(two)+" vs one write "+q(one))
			}
			// the same through a StringBuilder, which selects the mode again before every call
			if viaBuilder {
				w.Eval(1)
				if sb := builderWrite(kind, [][]byte{b[:i], b[i:]}, i); canon(sb) != c1 {
					viol("split", "StringBuilder, kind="+itoa(kind)+" split at "+itoa(i)+": "+q(sb)+" vs one ManualBuffer write "+q(one))
				}
			}
			if threeWay {
				for j := i; j <= len(b); j++ {
					three := manualWrite(kind, [][]byte{b[:i], b[i:j], b[j:]}, i+j)
					w.Eval(1)
					if canon(three) != c1 {
						viol("split", "kind="+itoa(kind)+" split at "+itoa(i)+","+itoa(j)+": "+q(three)+" vs one write "+q(one))
					}
				}
			}
		}
	}
	nt := hasMarker(s) || strings.Contains(s, "\n") || truncatedTail(b)
	if nt {
		w.Nontrivial(hashStr(s))
	}
}

// manualWrite writes the chunks in one mode, alternating Write/WriteString.
func manualWrite(kind int, chunks [][]byte, salt int) string {
	var mb redact.ManualBuffer
	setMode(&mb, kind)
	for n, c := range chunks {
		if (n+salt)%2 == 0 {
			mb.Write(c)
		} else {
			mb.WriteString(string(c))
		}
	}
	return string(mb.RedactableString())
}

// builderWrite writes the chunks through the SafeWriter methods of a StringBuilder (kind 0: safe, kind 1: unsafe),
// alternating the string- and bytes-taking forms.
func builderWrite(kind int, chunks [][]byte, salt int) string {
	var sb redact.StringBuilder
	for n, c := range chunks {
		switch {
		case kind == 0 && (n+salt)%2 == 0:
			sb.SafeString(interfaces.SafeString(c))
		case kind == 0:
			sb.SafeBytes(interfaces.SafeBytes(c))
		case (n+salt)%3 == 0:
			sb.UnsafeString(string(c))
		case (n+salt)%3 == 1:
			sb.UnsafeBytes(c)
		default:
			sb.Write(c)
		}
	}
	return string(sb.RedactableString())
}

func runC10(c *Ctx) {
	maxLen := int(c.pick(7, 8))
	k := int64(len(c10alpha))
	var total int64
	pow := int64(1)
	offs := []int64{}
	for l := 0; l <= maxLen; l++ {
		offs = append(offs, total)
		total += pow
		pow *= k
	}
	three := c.thorough()
	c.ParallelFor(total, func(w *Worker, i int64) {
		l := 0
		for l+1 < len(offs) && offs[l+1] <= i {
			l++
		}
		j := i - offs[l]
		b := make([]byte, l)
		for n := 0; n < l; n++ {
			b[n] = c10alpha[j%k]
			j /= k
		}
		c10check(w, b, three && l <= 6)
		w.Count("exhaustive_strings", 1)
		if i%300007 == 11 {
			w.Sample(map[string]string{"bytes_q": q(string(b)), "EscapeMarkers_q": q(string(redact.EscapeMarkers(b))), "EscapeBytes_q": q(string(redact.EscapeBytes(b)))})
		}
	})
	// whole-rune tokens (the replacement character itself, 2- to 4-byte runes, fragments of U+FFFD):
	// every sequence of up to 4 (thorough: 5) tokens
	tl := int(c.pick(4, 5))
	tk := int64(len(c10tokens))
	var ttotal int64
	tp := int64(1)
	for l := 0; l <= tl; l++ {
		ttotal += tp
		tp *= tk
	}
	c.ParallelFor(ttotal, func(w *Worker, i int64) {
		var b []byte
		j, p := i, int64(1)
		l := 0
		for j >= p {
			j -= p
			p *= tk
			l++
		}
		for n := 0; n < l; n++ {
			b = append(b, c10tokens[j%tk]...)
			j /= tk
		}
		c10check(w, b, false)
		w.Count("token_strings", 1)
	})
	// runs of ordinary bytes of every length up to 150 (word-sized and block-sized fast paths, growth steps) followed
	// by a marker, a partial marker or two adjacent markers, in four contexts before and four after
	type runCase struct {
		l                int
		pre, mark, after string
		lf               bool
	}
	var runs []runCase
	for l := 0; l <= 150; l++ {
		for _, pre := range []string{"", "é", "\n", startM, "\xe2"} {
			for _, mark := range []string{startM, endM, "\xe2\x80", startM + endM, endM + endM} {
				for _, after := range []string{"", "z", "\n", "\xb9"} {
					runs = append(runs, runCase{l, pre, mark, after, false})
				}
			}
		}
		runs = append(runs, runCase{l, "", startM, "\n", true}, runCase{l, "", endM + startM, "\nx", true})
	}
	c.ParallelFor(int64(len(runs)), func(w *Worker, i int64) {
		rc := runs[i]
		b := []byte(rc.pre)
		for j := 0; j < rc.l; j++ {
			ch := "abc d?0-"[j%8]
			if rc.lf && j == rc.l/2 {
				ch = '\n'
			}
			b = append(b, ch)
		}
		b = append(append(b, rc.mark...), rc.after...)
		c10check(w, b, false)
		w.Count("ascii_run_strings", 1)
	})
	nRand := c.pick(60000, 3000000)
	c.ParallelFor(nRand, func(w *Worker, i int64) {
		r := newRng(c.Seed, 0xc10, uint64(i))
		if r.Chance(1, 4) {
			var b []byte
			for j, n := 0, 1+r.Intn(12); j < n; j++ {
				b = append(b, c10tokens[r.Intn(len(c10tokens))]...)
			}
			c10check(w, b, false)
			w.Count("random_token_strings", 1)
			return
		}
		n := maxLen + 1 + r.Intn(40)
		if r.Chance(1, 50) {
			n = 200 + r.Intn(4000)
		}
		if i%2000 == 7 {
			// beyond the sizes of everyday payloads: around 4 KiB, 64 KiB and 128 KiB (chunked scanners, 16-bit offsets)
			n = []int{4093, 4096, 8191, 65533, 65536, 65539, 131072, 100000}[(i/2000)%8] + r.Intn(5)
			w.Count("very_long_strings", 1)
		}
		b := make([]byte, n)
		for j := range b {
			if r.Chance(1, 12) {
				b[j] = byte(r.Intn(256))
			} else {
				b[j] = c10alpha[r.Intn(len(c10alpha))]
			}
		}
		// plant whole markers now and then
		if r.Chance(1, 2) {
			at := r.Intn(n - 2)
			copy(b[at:], startM)
			if r.Bool() {
				copy(b[at:], endM)
			}
		}
		c10check(w, b, false)
		w.Count("random_strings", 1)
	})
	// a single marker (or line feed, or truncated marker) in an otherwise plain payload, placed around every multiple of a
	// power of two: scanners that skip whole blocks, word-at-a-time loops, chunked copies
	var aligned [][]byte
	for _, blk := range []int{8, 16, 32, 64, 128, 256, 512, 1024, 2048, 4096, 8192, 16384, 32768, 65536} {
		for _, k := range []int{1, 2, 3, 16} {
			if blk*k > 140000 {
				continue
			}
			for off := -4; off <= 1; off++ {
				for _, mk := range []string{startM, endM, "\n", "\xe2\x80", redactedM, "\xe2"} {
					b := append(bytes.Repeat([]byte("a"), blk*k+off), mk...)
					aligned = append(aligned, append(append([]byte(nil), b...), "TAIL"...), append(b, ("T" + endM + "x" + startM)...))
				}
			}
		}
	}
	c.AddCount("aligned_marker_strings", int64(len(aligned)))
	c.ParallelFor(int64(len(aligned)), func(w *Worker, i int64) { c10check(w, aligned[i], false) })
	c.res.Exhaustive = true
	c.res.Bound = "every byte string of at most " + itoa(maxLen) + " bytes over the 9-byte alphabet, every start offset, both line-split settings"
}
