package main

// C06 — Unsafe(x) envelopes all of x; Safe(x) envelopes none; outermost wins.

import (
	"fmt"
	"io"
	"reflect"
	"strings"
	"unicode/utf8"

	"github.com/cockroachdb/redact"
)

func init() {
	register("C06", &monitor{
		phases: func(tier string) []string { return []string{"main", "hook"} },
		run:    runC06,
		rule: "the wrapper is the operand itself (directly or as a reflect.Value): (1) product leaf/composite x 58 verbs x flag sets x width/precision x {Unsafe, Safe}, (2) random values of the full universe incl. SafeValues, registered types, Safe-wrapped parts, redactables, SafeFormatters, re-entrant Formatters that discover the SafePrinter and call Print/Printf/Safe*/Unsafe*/Write, under all 14 wrapper words of depth <= 3; a second phase runs with an error hook installed; " +
			"oracle: under Unsafe every byte except line feeds is inside envelopes and the stripped text is esc(fmt(x)); under Safe (x without classification of its own) no envelope and the text is esc(fmt(x)); any word prints like its outermost wrapper alone; " +
			"non-trivial = x is composite, method-bearing or carries markers/line feeds; distinct = distinct (word, directive, x)",
	})
}

// tReentrant is a Formatter that looks for the SafePrinter behind its
// fmt.State and, if there is one, runs a script on it.
type tReentrant struct {
	steps []*D
	bc    func() *buildCtx
}

func (t tReentrant) Format(f fmt.State, verb rune) {
	if sp, ok := f.(redact.SafePrinter); ok {
		bc := t.bc()
		for _, st := range t.steps {
			bc.runStep(sp, st, verb)
		}
		return
	}
	io.WriteString(f, "plain-reentrant")
}

var wrapperWords = func() []string {
	var out []string
	for n := 1; n <= 3; n++ {
		for m := 0; m < 1<<n; m++ {
			w := ""
			for i := 0; i < n; i++ {
				if m&(1<<i) != 0 {
					w += "U"
				} else {
					w += "S"
				}
			}
			out = append(out, w)
		}
	}
	return out
}()

// wrap applies the word (outermost first) to v.
func wrap(word string, v interface{}) interface{} {
	for i := len(word) - 1; i >= 0; i-- {
		if word[i] == 'U' {
			v = redact.Unsafe(v)
		} else {
			v = redact.Safe(v)
		}
	}
	return v
}

// ownClassification: x (or a part of it) classifies itself, so that
// "Safe(x) contains no envelope" is not claimed.
func ownClassification(d *D) bool {
	return containsKind(d, "Safe", "Unsafe", "RS", "RB", "Builder", "PBuilder", "SafeFmt", "SafeFmtErr", "Reentrant") || containsReadOnlyRedactable(d)
}

func containsReadOnlyRedactable(d *D) bool {
	if d.K == "RVFieldT" && rvFieldTIndex(d) < 2 {
		return true
	}
	for _, s := range d.Sub {
		if containsReadOnlyRedactable(s) {
			return true
		}
	}
	return false
}

func hasRedactable(d *D) bool { return containsKind(d, "RS", "RB", "Builder", "PBuilder") }

func bareDirective(d Dir) bool {
	return d.Flags == "" && d.Width == "" && d.Prec == "" && (d.Verb == "v" || d.Verb == "s")
}

type c06case struct {
	X    *D     `json:"x"`
	Dir  Dir    `json:"dir"`
	Word string `json:"word"`
	RV   bool   `json:"as_reflect_value,omitempty"`
	// how the reflect.Value is obtained: 0 reflect.ValueOf(v); 1 an interface-kind slice element holding v (4: of a slice typed with a non-empty interface);
	// 2 a read-only interface-kind value (unexported field) holding v; 3 the read-only wrapper value itself
	RVForm int `json:"reflect_value_form,omitempty"`
}

func (c c06case) String() string {
	s := fmt.Sprintf("Sprintf(%q, %s(%s))", c.Dir.String(), c.Word, c.X)
	if c.RV {
		s += " [as reflect.Value, form " + itoa(c.RVForm) + "]"
	}
	return s
}

func sprintfWith(d Dir, v interface{}) (o outcome) {
	var args []interface{}
	if d.Width == "*" {
		args = append(args, d.WArg)
	}
	if d.Prec == ".*" {
		args = append(args, d.PArg)
	}
	args = append(args, v)
	return runRedact(routeS, false, d.String(), args)
}

func fmtWith(d Dir, v interface{}) (o outcome) {
	var args []interface{}
	if d.Width == "*" {
		args = append(args, d.WArg)
	}
	if d.Prec == ".*" {
		args = append(args, d.PArg)
	}
	args = append(args, v)
	return runFmt(false, false, d.String(), args)
}

func (bc *buildCtx) realC06(d *D) interface{} {
	if d.K == "Reentrant" {
		return tReentrant{d.Sub, func() *buildCtx { return bc }}
	}
	return bc.real(d)
}

func c06check(w *Worker, cs c06case, hook bool, idx int64) {
	d := cs.Dir
	if d.PArg < 0 {
		d.PArg = 2 // a negative '*' precision is reported as %!(BADPREC) before the operand: not part of x's rendering
		cs.Dir = d
	}
	if (d.Verb == "p" || d.Verb == "w") && cs.Word[0] == 'U' && !cs.RV && !hasZeroMinus(d.String()) {
		// not dispatched to the value at top level, but reported as a bad verb for an array that holds the wrapper:
		// the printer then walks the array on its error path, where the wrapper must still be honoured
		bc := newBuildCtx()
		bc.memo = map[*D]interface{}{}
		var x interface{}
		built := false
		func() {
			defer func() { recover() }()
			x = bc.realC06(cs.X)
			built = true
		}()
		if built {
			c06inContainer(w, cs, d, x, true)
			if d.Verb == "p" {
				bc.resetCounters()
				rv := cs
				rv.RVForm = 9
				c06inContainer(w, rv, d, x, true)
			}
		}
		return
	}
	if d.Verb == "T" || d.Verb == "p" || d.Verb == "w" {
		return // not dispatched to the value (fmt treats them before anything else)
	}
	if hasZeroMinus(d.String()) {
		w.Count("excluded_zero_minus", 1)
		return
	}
	bc := newBuildCtx()
	bc.memo = map[*D]interface{}{} // operands built lazily by script steps must be the same objects in every run (addresses are printed)
	var x interface{}
	built := false
	func() {
		defer func() { recover() }()
		x = bc.realC06(cs.X)
		built = true
	}()
	if !built {
		w.Count("operand_build_panicked", 1)
		return
	}
	mk := func(word string) interface{} {
		v := wrap(word, x)
		if cs.RV {
			switch cs.RVForm {
			case 1:
				return reflect.ValueOf([]interface{}{v}).Index(0)
			case 2:
				return reflect.ValueOf(tSUnexp{0, "", v}).Field(2)
			case 3:
				return reflect.ValueOf(tSUnexp{0, "", v}).Field(2).Elem()
			case 4:
				// an interface-kind value whose static type has methods (an element of []redact.SafeValue / []fmt.Formatter)
				if sv, ok := v.(redact.SafeValue); ok {
					return reflect.ValueOf([]redact.SafeValue{sv}).Index(0)
				}
				if fv, ok := v.(fmt.Formatter); ok {
					return reflect.ValueOf([]fmt.Formatter{fv}).Index(0)
				}
				return reflect.ValueOf([]interface{}{v}).Index(0)
			}
			return reflect.ValueOf(v)
		}
		return v
	}
	out := sprintfWith(d, mk(cs.Word))
	w.Eval(1)
	csf := func() interface{} { return cs }
	outer := cs.Word[:1]
	// (3) outermost wins
	if len(cs.Word) > 1 {
		bc.resetCounters()
		ref := sprintfWith(d, mk(outer))
		w.Eval(1)
		if ref.panicked != out.panicked || ref.out != out.out {
			w.Violate("C06 outermost", cs.Word+" prints "+q(out.out)+" (panicked="+sprint(out.panicked)+"), its outermost wrapper alone "+q(ref.out)+" (panicked="+sprint(ref.panicked)+") for "+cs.String(), csf())
			return
		}
	}
	if out.panicked {
		// legitimate when printing x panics under fmt too (a payload whose own printing panics); x that fmt prints differently
		// by design (scripts, re-entrant formatters) cannot be compared
		if !containsKind(cs.X, "Reentrant", "SafeFmt", "SafeFmtErr", "PSafeFmtErr", "SafeMsg", "Builder", "PBuilder", "Safe", "Unsafe") {
			bc.resetCounters()
			if fo := fmtWith(d, x); !fo.panicked {
				w.Violate("C06 panic", "printing "+cs.Word+"(x) panicked ("+pvalString(out.pval)+") where fmt prints x as "+q(fo.out)+" for "+cs.String(), csf())
				return
			}
		}
		w.Count("propagated_panics", 1)
		return
	}
	p := parse(out.out)
	if !p.WellFormed {
		w.Violate("C06 ill-formed", "output "+q(out.out)+" for "+cs.String(), csf())
		return
	}
	// the fmt rendering of x itself
	// Text equality with fmt is asserted only where fmt can print the same x the
	// same way: not for values with redact-specific rendering (SafeMessager text,
	// RedactableBytes/StringBuilder printed as text, re-entrant formatters).
	fmtComparable := !(containsKind(cs.X, "RS") && !bareDirective(d)) && !containsKind(cs.X, "Reentrant", "SafeMsg", "RB", "Builder", "PBuilder") && !containsReadOnlyRedactable(cs.X) && !(hook && containsKind(cs.X, "SafeFmtErr"))
	if containsKind(cs.X, "Safe", "Unsafe") {
		// x holds wrapper objects inside a container: fmt prints those through
		// their Format method as if they were top-level operands (padding of nil,
		// &{...} for pointers) or structurally in unexported fields. What the
		// content prints as in that position is C05's question (bracket oracle).
		fmtComparable = false
	}
	if hook && outer == "S" && containsKind(cs.X, append(errorKinds, panicKinds...)...) {
		fmtComparable = false // under Safe the hook renders errors, incl. error-valued panic payloads (C17); only Unsafe bypasses it
	}
	var fo outcome
	if fmtComparable {
		bc.resetCounters()
		fx := x
		if cs.RV && cs.RVForm != 0 && cs.RVForm != 4 {
			fo = fmtWith(d, reflect.ValueOf(fx))
		} else {
			// (reflect.ValueOf(wrapper): the content is handed to the printer like a top-level operand)
			fo = fmtWith(d, fx)
		}
		if fo.panicked || !utf8.ValidString(fo.out) {
			fmtComparable = false
		}
	}
	if outer == "U" {
		if so := safeOnly(p); strings.Trim(so, "\n") != "" {
			w.Violate("C06 unsafe-leak", "text outside envelopes under Unsafe: "+q(so)+" in "+q(out.out)+" for "+cs.String(), csf())
			return
		}
		if fmtComparable && (!cs.RV || ((cs.RVForm == 0 || cs.RVForm == 4) && !strings.HasPrefix(cs.X.K, "RV"))) {
			if got, want := refStrip(p), esc(fo.out); got != want {
				w.Violate("C06 unsafe-text", "stripped "+q(got)+" but fmt prints x as "+q(want)+" for "+cs.String(), csf())
				return
			}
		}
		if !cs.RV && idx%3 == 0 {
			bc.resetCounters()
			if !c06inContainer(w, cs, d, x, false) {
				return
			}
		}
		if !cs.RV && idx%4 == 1 {
			// JoinTo with an operand that is not a slice prints it as it is: the wrapper stays in force
			bc.resetCounters()
			direct := runRedact(routeS, true, "", []interface{}{wrap(cs.Word, x)})
			bc.resetCounters()
			var joined string
			jp := func() (p interface{}) {
				defer func() { p = recover() }()
				var sb redact.StringBuilder
				redact.JoinTo(&sb, ", ", wrap(cs.Word, x))
				joined = string(sb.RedactableString())
				return nil
			}()
			w.Eval(2)
			if jp == nil && !direct.panicked && canon(joined) != canon(direct.out) {
				w.Violate("C06 joinTo-wrapper", "JoinTo(w, \", \", "+cs.Word+"(x)) gives "+q(joined)+" but Sprint of the same operand gives "+q(direct.out)+" for "+cs.String(), csf())
				return
			}
		}
	} else if !ownClassification(cs.X) {
		if len(p.Env) != 0 {
			w.Violate("C06 safe-enveloped", "envelope under Safe: "+q(out.out)+" for "+cs.String(), csf())
			return
		}
		if fmtComparable && (!cs.RV || ((cs.RVForm == 0 || cs.RVForm == 4) && !strings.HasPrefix(cs.X.K, "RV"))) {
			if want := esc(fo.out); out.out != want {
				w.Violate("C06 safe-text", "Safe(x) prints "+q(out.out)+" but fmt prints x as "+q(want)+" for "+cs.String(), csf())
				return
			}
		}
	}
	if len(cs.X.Sub) > 0 || hasMarker(out.out) || strings.Contains(out.out, "\n") || strings.Contains(cs.X.K, "er") {
		w.Nontrivial(hashStrs(cs.Word, d.String(), cs.X.String(), sprint(cs.RV), itoa(cs.RVForm)))
	}
	if idx%70001 == 5 {
		w.Sample(map[string]string{"case": cs.String(), "output_q": q(out.out)})
	}
}

// c06inContainer: the wrapper as an element of a slice (or of an array, for the verbs that are reported for the array
// as a whole): what is outside envelopes is the frame alone (brackets, or the bad-verb report), whatever x is and
// whatever path the printer takes.
func c06inContainer(w *Worker, cs c06case, d Dir, x interface{}, array bool) bool {
	mk := func(v interface{}) interface{} {
		if array && cs.RVForm == 9 {
			return reflect.ValueOf(v) // %p / %w of a reflect.Value: a bad verb, reported around the value it holds
		}
		if array {
			return [1]interface{}{v}
		}
		return []interface{}{v}
	}
	in := sprintfWith(d, mk(wrap(cs.Word, x)))
	frame := sprintfWith(d, mk(redact.Unsafe("")))
	w.Eval(2)
	if in.panicked || frame.panicked {
		return true
	}
	pi, pf := parse(in.out), parse(frame.out)
	if !pi.WellFormed || !pf.WellFormed {
		return true
	}
	if si, sf := strings.ReplaceAll(safeOnly(pi), "\n", ""), strings.ReplaceAll(safeOnly(pf), "\n", ""); si != sf {
		w.Violate("C06 unsafe-leak-in-container", "inside a container, text outside envelopes "+q(si)+" (the frame alone: "+q(sf)+") in "+q(in.out)+" for "+cs.String()+" [as element of "+sprintType(mk(nil))+"]", cs)
		return false
	}
	w.Count("in_container_cases", 1)
	return true
}

func c06randX(r *Rng, o genOpts) *D {
	if r.Chance(1, 7) {
		d := &D{K: "Reentrant"}
		for i, n := 0, 1+r.Intn(5); i < n; i++ {
			d.Sub = append(d.Sub, randStep(r, 2, o))
		}
		return d
	}
	return randD(r, 2, o)
}

var errorKinds = []string{"Err", "StdErr", "PErr", "NilPErr", "WrapErr", "ErrStringer", "ErrFmter", "PanicErr", "SErrField", "errs", "SafeFmtErr"}

func wrapperInUnexportedField(d *D) bool {
	switch d.K {
	case "S3":
		if containsKind(d.Sub[1], "Safe", "Unsafe") {
			return true
		}
	case "SUnexp":
		if containsKind(d.Sub[0], "Safe", "Unsafe") {
			return true
		}
	}
	for _, s := range d.Sub {
		if wrapperInUnexportedField(s) {
			return true
		}
	}
	return false
}

func runC06(c *Ctx) {
	registerStdTypes()
	hook := c.Phase == "hook"
	if hook {
		redact.RegisterRedactErrorFn(func(err error, p redact.SafePrinter, verb rune) {
			p.SafeString("HOOK[")
			p.UnsafeString("detail")
			p.SafeString("]")
		})
		if !redact.VerifHasErrorFn() {
			c.Inconclusive("hook not installed")
		}
	}
	o := fullOpts()
	o.addrs = true
	// (1) product
	var cases []c06case
	leaves := productLeavesC02()
	leaves = append(leaves,
		&D{K: "Reentrant", Sub: []*D{dSub("sPrint", dSub("Safe", dS("string", "LEAK1"))), {K: "sPrintf", S: "LEAK2"}, dS("sUnsafeString", "u3"), dSub("sPrint", dSub("RS", dS("string", "in"), dSub("Safe", dS("string", "LEAK4")))), dS("sSafeString", "LEAK5"), dN("sSafeInt", 6), dS("sWrite", "w7")}},
		&D{K: "SafeFmt", Sub: []*D{dS("sSafeString", "LEAK1"), dSub("sPrint", dSub("Safe", dN("int", 2)), dS("string", "u")), {K: "sPrintf", S: "LEAK3 %v", Sub: []*D{dSub("Safe", dS("string", "LEAK4"))}}}},
		dS("SafeMsg", "LEAKMSG"),
		dSub("slice", dSub("Safe", dS("string", "LEAK")), dS("SVStr", "LEAKSV"), dN("RegInt", 7), dSub("RS", dSub("Safe", dS("string", "LEAKRS")))),
		&D{K: "SVStruct", Sub: []*D{dS("string", "a"), dS("SVStr", "LEAKSV")}},
		dSub("S2", dS("StdErr", "err-text"), dS("PErr", "perr-text")),
	)
	flagsU := []string{"", "+", "#", "-", "0", "+#"}
	wps := []struct {
		w, p   string
		wa, pa int
	}{{"", "", 0, 0}, {"9", "", 0, 0}, {"", ".2", 0, 0}, {"*", ".*", -7, 1}}
	for _, l := range leaves {
		for _, v := range allVerbs {
			for _, f := range flagsU {
				for _, wp := range wps {
					for _, word := range []string{"U", "S"} {
						cases = append(cases, c06case{X: l, Dir: Dir{Flags: f, Width: wp.w, Prec: wp.p, Verb: v, WArg: wp.wa, PArg: wp.pa}, Word: word})
					}
				}
			}
		}
	}
	// all words on a reduced directive set
	for _, l := range leaves {
		for _, dd := range []Dir{{Verb: "v"}, {Verb: "v", Flags: "+"}, {Verb: "v", Flags: "#"}, {Verb: "s", Width: "7"}, {Verb: "d"}, {Verb: "x", Flags: "#"}, {Verb: "q"}} {
			for _, word := range wrapperWords {
				cases = append(cases, c06case{X: l, Dir: dd, Word: word}, c06case{X: l, Dir: dd, Word: word, RV: true},
					c06case{X: l, Dir: dd, Word: word, RV: true, RVForm: 1}, c06case{X: l, Dir: dd, Word: word, RV: true, RVForm: 2}, c06case{X: l, Dir: dd, Word: word, RV: true, RVForm: 3}, c06case{X: l, Dir: dd, Word: word, RV: true, RVForm: 4})
			}
		}
	}
	if hook {
		// the hook phase concentrates on errors; keep a third of the product
		var keep []c06case
		for i, cs := range cases {
			if i%3 == 0 || containsKind(cs.X, errorKinds...) {
				keep = append(keep, cs)
			}
		}
		cases = keep
	}
	c.AddCount("product_cases", int64(len(cases)))
	c.ParallelFor(int64(len(cases)), func(w *Worker, i int64) { c06check(w, cases[i], hook, i) })
	// (2) random
	n := c.pick(1000000, 15000000)
	c.ParallelFor(n, func(w *Worker, i int64) {
		r := newRng(c.Seed, 0xc06, uint64(i))
		cs := c06case{X: c06randX(r, o), Dir: randDir(r, genOpts{}, r.Chance(1, 5)), Word: wrapperWords[r.Intn(len(wrapperWords))], RV: r.Chance(1, 6)}
		if cs.RV {
			cs.RVForm = r.Intn(5)
		}
		cs.Dir.Lit = ""
		c06check(w, cs, hook, i)
		w.Count("random_cases", 1)
	})
	if hook {
		redact.RegisterRedactErrorFn(nil)
	}
	c.res.Assumptions = []string{"go1.23.5 fmt is the reference for the characters of x", "text equality is not asserted where fmt legitimately differs: redactables under a non-bare directive (printed verbatim by design), formatters that take another branch when they see a SafePrinter, invalid UTF-8, '0' with '-'"}
}
