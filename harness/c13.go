package main

// C13 — buffer accessors are pure; Reset and Take return to a pristine buffer.
// Metamorphic over the C09 histories.

import (
	"strings"
	"unicode/utf8"

	"github.com/cockroachdb/redact"
)

func init() {
	register("C13", &monitor{
		run: runC13,
		rule: "C09 histories (exhaustive up to the length bound, random up to 30 calls, raw ManualBuffer programs) with Len/Cap/String/RedactableString/RedactableBytes/GetMode inserted at every position, " +
			"and Reset/TakeRedactableString/TakeRedactableBytes at every position, on StringBuilder and ManualBuffer; oracle: same final string as without the accessor, Len == len(RedactableString), " +
			"suffix after Reset/Take equals the suffix on a new object, earlier strings unchanged at the end; non-trivial = the accessor/reset ran while an envelope was open or unescaped bytes were pending; distinct = (history, insertion)",
	})
}

// bufOps abstracts StringBuilder and ManualBuffer behind closures (the mode
// type lives in an internal package and cannot be named in an interface here).
type bufOps struct {
	name    string
	apply   func(Op)
	length  func() int
	capy    func() int
	str     func() string
	rs      func() string
	rb      func() []byte
	getMode func() int
	grow    func(int)
	takeS   func() string
	takeB   func() []byte
	reset   func()
	state   func() (mode int, open bool, valid, l int)
}

func newBuilderOps() *bufOps {
	b := new(redact.StringBuilder)
	t := targetOf(b)
	return &bufOps{
		name:    "StringBuilder",
		apply:   func(o Op) { applyOp(t, o) },
		length:  func() int { return b.Len() },
		capy:    func() int { return b.Cap() },
		str:     func() string { return b.String() },
		rs:      func() string { return string(b.RedactableString()) },
		rb:      func() []byte { return []byte(b.RedactableBytes()) },
		getMode: func() int { return int(b.GetMode()) },
		grow:    func(n int) { b.Grow(n) },
		takeS:   func() string { return string(b.TakeRedactableString()) },
		takeB:   func() []byte { return []byte(b.TakeRedactableBytes()) },
		reset:   func() { b.Reset() },
		state: func() (int, bool, int, int) {
			m, o, v, l, _ := b.VerifState()
			return int(m), o, v, l
		},
	}
}

func newManualOps() *bufOps {
	b := new(redact.ManualBuffer)
	return &bufOps{
		name:    "ManualBuffer",
		apply:   func(o Op) { applyManualRaw(b, o) },
		length:  func() int { return b.Len() },
		capy:    func() int { return b.Cap() },
		str:     func() string { return b.String() },
		rs:      func() string { return string(b.RedactableString()) },
		rb:      func() []byte { return []byte(b.RedactableBytes()) },
		getMode: func() int { return int(b.GetMode()) },
		grow:    func(n int) { b.Grow(n) },
		takeS:   func() string { return string(b.TakeRedactableString()) },
		takeB:   func() []byte { return []byte(b.TakeRedactableBytes()) },
		reset:   func() { b.Reset() },
		state: func() (int, bool, int, int) {
			m, o, v, l, _ := b.VerifState()
			return int(m), o, v, l
		},
	}
}

// applyManualRaw: like applyManual, plus the raw program ops "SetMode"
// (I = piece kind) and "RawWrite*" (write without touching the mode).
func applyManualRaw(b *redact.ManualBuffer, o Op) {
	switch o.M {
	case "SetMode":
		setMode(b, int(o.I))
	case "RawWrite":
		b.Write([]byte(o.S))
	case "RawWriteString":
		b.WriteString(o.S)
	case "RawWriteByte":
		b.WriteByte(o.B)
	case "RawWriteRune":
		b.WriteRune(rune(o.R))
	default:
		applyManual(b, o)
	}
}

var accessors = []string{"Len", "Cap", "String", "RedactableString", "RedactableBytes", "GetMode", "Grow"}
var resetters = []string{"Reset", "TakeRedactableString", "TakeRedactableBytes"}

// kept is a string obtained from the object, with a private copy made at that moment.
type kept struct {
	what string
	s    string
	copy string
}

func keep(what, s string) kept { return kept{what, s, strings.Clone(s)} }

// runPlain: final string of a history on a fresh object.
func runPlain(mk func() *bufOps, h []Op) (out string, pan interface{}) {
	defer func() { pan = recover() }()
	b := mk()
	for _, o := range h {
		b.apply(o)
	}
	return b.rs(), nil
}

// c13accessors: h with accessor acc called before op index pos (pos == len(h): after the last op),
// or, when pos < 0, with all accessors called at every position.
func c13accessors(w *Worker, mk func() *bufOps, h []Op, base string, pos int, acc string) {
	cs := func() interface{} {
		return map[string]interface{}{"history": historyString(h), "ops": h, "insert_at": pos, "accessor": acc}
	}
	defer func() {
		if r := recover(); r != nil {
			w.Violate("C13 panic", "panic "+sprint(r)+" with "+acc+" at "+itoa(pos)+" history="+historyString(h), cs())
		}
	}()
	b := mk()
	var keeps []kept
	nt := false
	call := func(a string) {
		_, open, valid, l := b.state()
		if open || valid < l {
			nt = true
		}
		switch a {
		case "Len":
			n := b.length()
			if s := b.rs(); n != len(s) {
				w.Violate("C13 Len", b.name+": Len()="+itoa(n)+" but RedactableString() has "+itoa(len(s))+" bytes ("+q(s)+") history="+historyString(h)+" at "+itoa(pos), cs())
			}
		case "Cap":
			_ = b.capy()
		case "String":
			keeps = append(keeps, keep("String", b.str()))
		case "RedactableString":
			keeps = append(keeps, keep("RedactableString", b.rs()))
		case "RedactableBytes":
			x := b.rb()
			if s := b.rs(); string(x) != s {
				w.Violate("C13 accessors-disagree", b.name+": RedactableBytes()="+q(string(x))+" RedactableString()="+q(s)+" history="+historyString(h), cs())
			}
		case "GetMode":
			_ = b.getMode()
		case "Grow":
			// only capacity may change (a negative count is a documented panic and not used)
			b.grow([]int{0, 1, 7, 64, 200}[(pos+len(h))%5])
		}
	}
	for i := 0; i <= len(h); i++ {
		if pos < 0 {
			for _, a := range accessors {
				call(a)
			}
		} else if i == pos {
			call(acc)
		}
		if i < len(h) {
			b.apply(h[i])
		}
	}
	w.Eval(1)
	got := b.rs()
	if got != base {
		w.Violate("C13 accessor-impure "+acc, b.name+": final string "+q(got)+" with "+acc+" inserted at "+itoa(pos)+", "+q(base)+" without; history="+historyString(h), cs())
	}
	for _, k := range keeps {
		if k.s != k.copy {
			w.Violate("C13 string-modified", b.name+": string obtained from "+k.what+" changed from "+q(k.copy)+" to "+q(k.s)+" history="+historyString(h), cs())
		}
	}
	if nt {
		w.Nontrivial(hashStrs(b.name, historyString(h), acc, itoa(pos)))
	}
}

// c13reset: run h[:pos], apply the resetter, run h[pos:]; the result must be
// what h[pos:] yields on a new object, and the state right after the
// resetter must be the initial one.
func c13reset(w *Worker, mk func() *bufOps, h []Op, pos int, how string) {
	cs := func() interface{} {
		return map[string]interface{}{"history": historyString(h), "ops": h, "reset_at": pos, "how": how}
	}
	defer func() {
		if r := recover(); r != nil {
			w.Violate("C13 panic", "panic "+sprint(r)+" with "+how+" at "+itoa(pos)+" history="+historyString(h), cs())
		}
	}()
	b := mk()
	for _, o := range h[:pos] {
		b.apply(o)
	}
	_, open, valid, l := b.state()
	nt := open || valid < l
	var taken kept
	var takenBytes, appended []byte
	expect := ""
	if how != "Reset" {
		expect = b.rs()
	}
	switch how {
	case "Reset":
		b.reset()
	case "TakeRedactableString":
		taken = keep(how, b.takeS())
	case "TakeRedactableBytes":
		tb := b.takeB()
		taken = keep(how, string(tb))
		takenBytes = tb
		// The caller owns the slice it took: appending to it (as one does to add a
		// line terminator) must not reach the object, which is "like new" now.
		if pos%2 == 0 {
			appended = append(tb, "-appended-by-caller"...)
		}
	}
	w.Eval(1)
	if how != "Reset" && taken.s != expect {
		w.Violate("C13 take-content", b.name+": "+how+" returned "+q(taken.s)+" but RedactableString() was "+q(expect)+" history="+historyString(h[:pos]), cs())
	}
	// The hidden state after Reset/Take is observed (tagged accessor) but is not a
	// verdict: how an implementation represents "like new" is its own business.
	// What decides is behaviour: Len, GetMode and the suffix of the history below.
	mode, open2, valid2, l2 := b.state()
	if mode != 0 || open2 || valid2 != 0 || l2 != 0 {
		w.Count("hidden_state_differs_from_new_object_after_"+how, 1)
	}
	if gm := b.getMode(); gm != 0 {
		w.Violate("C13 mode-after "+how, b.name+": GetMode() is "+itoa(gm)+" after "+how+", a new object reports 0; history="+historyString(h[:pos]), cs())
	}
	if n := b.length(); n != 0 {
		w.Violate("C13 not-pristine "+how, b.name+": Len()="+itoa(n)+" after "+how, cs())
	}
	for _, o := range h[pos:] {
		b.apply(o)
	}
	got := b.rs()
	want, pan := runPlain(mk, h[pos:])
	if pan != nil {
		return // a panic on a fresh object is C11's business
	}
	if got != want {
		w.Violate("C13 reuse-differs "+how, b.name+": after "+how+" at "+itoa(pos)+" the suffix yields "+q(got)+", on a new object "+q(want)+"; history="+historyString(h), cs())
	}
	if takenBytes != nil && string(takenBytes) != taken.copy {
		w.Violate("C13 taken-modified", b.name+": the slice returned by TakeRedactableBytes changed from "+q(taken.copy)+" to "+q(string(takenBytes))+" while the object was reused; history="+historyString(h), cs())
	}
	if appended != nil && string(appended) != taken.copy+"-appended-by-caller" {
		w.Violate("C13 taken-aliased", b.name+": bytes the caller appended to the slice it took were overwritten by later writes to the object: "+q(string(appended))+"; history="+historyString(h), cs())
	}
	if takenBytes != nil && appended == nil {
		// the other order: the object is written first, then the caller appends to what it took
		_ = append(takenBytes, "-appended-late"...)
		if again := b.rs(); again != got {
			w.Violate("C13 taken-aliased", b.name+": appending to the slice returned by TakeRedactableBytes changed the object from "+q(got)+" to "+q(again)+"; history="+historyString(h), cs())
		}
	}
	if how != "Reset" && taken.s != taken.copy {
		w.Violate("C13 taken-modified", b.name+": result of "+how+" changed from "+q(taken.copy)+" to "+q(taken.s)+" while the object was reused; history="+historyString(h), cs())
	}
	if nt {
		w.Nontrivial(hashStrs(b.name, historyString(h), how, itoa(pos)))
	}
}

func c13all(w *Worker, h []Op, full bool, r *Rng) {
	for _, mk := range []func() *bufOps{newBuilderOps, newManualOps} {
		base, pan := runPlain(mk, h)
		w.Eval(1)
		if pan != nil {
			continue
		}
		if full {
			for pos := 0; pos <= len(h); pos++ {
				for _, a := range accessors {
					c13accessors(w, mk, h, base, pos, a)
				}
				for _, how := range resetters {
					c13reset(w, mk, h, pos, how)
				}
			}
			c13accessors(w, mk, h, base, -1, "all")
		} else {
			c13accessors(w, mk, h, base, -1, "all")
			for k := 0; k < 4; k++ {
				c13accessors(w, mk, h, base, r.Intn(len(h)+1), accessors[r.Intn(len(accessors))])
				c13reset(w, mk, h, r.Intn(len(h)+1), resetters[r.Intn(len(resetters))])
			}
		}
	}
}

// rawProgram: a random ManualBuffer program in which writes are not preceded
// by SetMode, so that a mode left behind by Reset/Take would show.
func rawProgram(r *Rng, maxLen int) []Op {
	n := 1 + r.Intn(maxLen)
	h := make([]Op, 0, n)
	// Writes that are not preceded by SetMode may land in raw mode, which only
	// accepts well-formed fragments (C09's quantifier): marker-free text or whole
	// envelopes, never a lone or partial marker.
	pay := []string{"@", "", " ", "\n", "@\n@", "é@日", "?@", startM + "@" + endM, startM + "@" + endM + "\n" + startM + "b" + endM, "x" + redactedM, "º@",
		// fragments ending inside a multi-byte sequence that cannot become a marker (the finished string gets a '?' there)
		"@\xc3", "\xf0\x9f", "@\xf0\x9f\x98"}
	for i := 0; i < n; i++ {
		switch r.Intn(6) {
		case 0:
			h = append(h, Op{M: "SetMode", I: int64(r.Intn(3))})
		case 1:
			h = append(h, Op{M: "RawWrite", S: uniq(pay[r.Intn(len(pay))], i)})
		case 2:
			h = append(h, Op{M: "RawWriteString", S: uniq(pay[r.Intn(len(pay))], i)})
		case 3:
			bs := []byte{'a', '\n', ' ', '?', 0, 'z'}
			h = append(h, Op{M: "RawWriteByte", B: bs[r.Intn(len(bs))]})
		case 4:
			rs := []int32{'a', '\n', ' ', 0xe9, 0x1f6d1, '?', 0, 0xba, -1, 0xd800, 0x110000}
			h = append(h, Op{M: "RawWriteRune", R: rs[r.Intn(len(rs))]})
		default:
			h = append(h, randOp(r, i, 20))
		}
	}
	return h
}

func runC13(c *Ctx) {
	// Exhaustive: all histories of length <= 2 over the full op alphabet; in the
	// thorough tier also length 3 over a reduced alphabet.
	ops0, ops1 := allOps(0, true), allOps(1, true)
	n := int64(len(ops0))
	total := n + n*n
	c.ParallelFor(total, func(w *Worker, i int64) {
		var h []Op
		if i < n {
			h = []Op{ops0[i]}
		} else {
			j := i - n
			h = []Op{ops0[j%n], ops1[j/n]}
		}
		c13all(w, h, true, nil)
		if i%20011 == 3 {
			w.Sample(map[string]interface{}{"history": historyString(h), "insertions": "every accessor and every resetter at every position"})
		}
	})
	c.AddCount("exhaustive_histories_len<=2", total)
	if c.thorough() {
		var red [3][]Op
		for pos := 0; pos < 3; pos++ {
			for _, m := range opMethods {
				v, inv := opVariants(m, pos)
				red[pos] = append(red[pos], v[0])
				if len(v) > 3 {
					red[pos] = append(red[pos], v[3])
				}
				if len(v) > 6 {
					red[pos] = append(red[pos], v[6])
				}
				if len(inv) > 0 {
					red[pos] = append(red[pos], inv[0])
				}
				if len(inv) > 2 {
					red[pos] = append(red[pos], inv[2])
				}
			}
		}
		m := int64(len(red[0]))
		c.ParallelFor(m*m*m, func(w *Worker, i int64) {
			h := []Op{red[0][i%m], red[1][(i/m)%m], red[2][i/(m*m)]}
			c13all(w, h, true, nil)
		})
		c.AddCount("exhaustive_histories_len3_reduced_alphabet", m*m*m)
	}
	// Directed: a long payload (below, at and above the buffer's 64-byte bootstrap size) that may end inside a multi-byte
	// sequence or a marker, then a payload that may continue it, through every pair of string-taking methods, with every
	// accessor and resetter at every position.
	var split [][]Op
	for _, pad := range []int{3, 61, 62, 63, 64, 65, 70, 200} {
		for _, tail := range longTails {
			for _, cont := range append([]string{"b"}, contPayloads...) {
				for _, m1 := range stringMethods {
					for _, m2 := range stringMethods {
						s1, s2 := strings.Repeat("x", pad)+tail, uniq(cont, 1)
						split = append(split, []Op{{M: m1, S: s1, V: utf8.ValidString(s1)}, {M: m2, S: s2, V: utf8.ValidString(s2)}})
					}
				}
			}
		}
	}
	c.ParallelFor(int64(len(split)), func(w *Worker, i int64) { c13all(w, split[i], true, nil) })
	c.AddCount("directed_split_payload_histories", int64(len(split)))
	// Directed: objects that have grown large (capacities beyond 64 KiB, where an implementation may decide not to keep
	// its storage) are reset or taken while an envelope is open, pending or closed, then used again.
	var bigs [][]Op
	for _, size := range []int{5000, 40000, 70000, 200000} {
		for _, m1 := range []string{"UnsafeString", "SafeString", "Write", "SafeBytes"} {
			for _, follow := range [][]Op{
				{{M: "UnsafeString", S: "b", V: true}, {M: "SafeString", S: " tail", V: true}},
				{{M: "SafeString", S: "a" + startM, V: true}, {M: "UnsafeString", S: "b", V: true}},
				{{M: "Print", A: "mixed", S: "x", V: true}},
			} {
				bigs = append(bigs, append([]Op{{M: m1, S: strings.Repeat("x", size), V: true}}, follow...))
			}
		}
	}
	c.ParallelFor(int64(len(bigs)), func(w *Worker, i int64) {
		for _, mk := range []func() *bufOps{newBuilderOps, newManualOps} {
			for _, how := range resetters {
				c13reset(w, mk, bigs[i], 1, how)
			}
		}
	})
	c.AddCount("directed_large_object_resets", int64(len(bigs)*6))
	nRand := c.pick(120000, 1500000)
	c.ParallelFor(nRand, func(w *Worker, i int64) {
		r := newRng(c.Seed, 0xc13, uint64(i))
		var h []Op
		if r.Chance(1, 3) {
			h = rawProgram(r, 20)
			// raw programs only make sense on ManualBuffer
			base, pan := runPlain(newManualOps, h)
			if pan != nil {
				return
			}
			c13accessors(w, newManualOps, h, base, -1, "all")
			for k := 0; k < 4; k++ {
				c13accessors(w, newManualOps, h, base, r.Intn(len(h)+1), accessors[r.Intn(len(accessors))])
				c13reset(w, newManualOps, h, r.Intn(len(h)+1), resetters[r.Intn(len(resetters))])
			}
			w.Count("raw_manual_programs", 1)
			return
		}
		h = randHistory(r, 30, 25)
		c13all(w, h, false, r)
		w.Count("random_histories", 1)
		if i%9973 == 1 {
			w.Sample(map[string]interface{}{"history": historyString(h), "insertions": "all accessors everywhere + 4 random single insertions + 4 random resets"})
		}
	})
	c.res.Exhaustive = true
	c.res.Bound = "every history of at most 2 calls over the full op alphabet (" + itoa(int(n)) + " ops) x every insertion point x 6 accessors and 3 resetters, on StringBuilder and ManualBuffer" +
		map[bool]string{true: "; length 3 over a reduced alphabet", false: ""}[c.thorough()]
}
