package main

// C05, %p and %T: the address of a value that is declared safe by its own type (a pointer, map, channel,
// function or slice type with a SafeValue method), wrapped in Safe() or of a registered pointer type is safe
// text, with its padding and prefix; every other address is enveloped. Explicit expectations: fmt prints the
// same operand (the same address) under the same directive.

import (
	"errors"
	"fmt"
	"reflect"
	"strings"
	"unsafe"

	"github.com/cockroachdb/redact"
)

type tSVPtrT struct{ s string }

func (*tSVPtrT) SafeValue() {}

type tSVMapT map[string]int

func (tSVMapT) SafeValue() {}

type tSVChanT chan int

func (tSVChanT) SafeValue() {}

type tSVFuncT func()

func (tSVFuncT) SafeValue() {}

type tSVIntsT []int

func (tSVIntsT) SafeValue() {}

type tRegPtrT struct{ n int }

var c05ptrX = 5
var c05ptrS = &tSVPtrT{"a" + startM}
var c05ptrR = &tRegPtrT{3}

func c05pointers(c *Ctx, registeredPtr bool) {
	if registeredPtr {
		redact.RegisterSafeType(reflect.TypeOf(c05ptrR))
	}
	type pcase struct {
		name    string
		operand interface{} // given to redact
		plain   interface{} // given to fmt
		safe    bool
	}
	ch := make(chan int)
	fn := func() {}
	cases := []pcase{
		{"*T with SafeValue", c05ptrS, c05ptrS, true},
		{"map type with SafeValue", tSVMapT{"k": 1}, nil, true},
		{"chan type with SafeValue", tSVChanT(ch), nil, true},
		{"func type with SafeValue", tSVFuncT(fn), nil, true},
		{"slice type with SafeValue", tSVIntsT{1, 2}, nil, true},
		{"Safe(*int)", redact.Safe(&c05ptrX), &c05ptrX, true},
		{"Safe(Unsafe(*int))", redact.Safe(redact.Unsafe(&c05ptrX)), &c05ptrX, true},
		{"pointer of a registered type", c05ptrR, c05ptrR, registeredPtr},
		{"*int", &c05ptrX, nil, false},
		{"map", map[string]int{"k": 1}, nil, false},
		{"chan", ch, nil, false},
		{"func", fn, nil, false},
		{"unsafe.Pointer", unsafe.Pointer(&c05ptrX), nil, false},
		{"[]int", []int{1}, nil, false},
		{"Unsafe(*T with SafeValue)", redact.Unsafe(c05ptrS), c05ptrS, false},
		{"Unsafe(Safe(*int))", redact.Unsafe(redact.Safe(&c05ptrX)), &c05ptrX, false},
	}
	for i := range cases {
		if cases[i].plain == nil {
			cases[i].plain = cases[i].operand
		}
	}
	var dirs []string
	for _, fl := range []string{"", "#", "+", "-", "0", " ", "-#", "+#0"} {
		for _, wp := range []string{"", "20", "3", ".4", "25.30"} {
			dirs = append(dirs, "%"+fl+wp+"p")
		}
	}
	dirs = append(dirs, "%T", "%12T", "%-30T|", "%.3T")
	c.ParallelFor(1, func(w *Worker, _ int64) {
		for _, pc := range cases {
			for _, d := range dirs {
				if hasZeroMinus(d) {
					continue
				}
				format := "a " + d + " z"
				var got string
				pan := func() (p interface{}) {
					defer func() { p = recover() }()
					got = string(redact.Sprintf(format, pc.operand))
					return nil
				}()
				w.Eval(1)
				cs := map[string]string{"format": format, "operand": pc.name}
				if pan != nil {
					w.Violate("C05 pointer-verb", "Sprintf("+q(format)+", "+pc.name+") panicked: "+pvalString(pan), cs)
					continue
				}
				want := esc(fmt.Sprintf(format, pc.plain))
				isT := d[len(d)-1] == 'T' || d[len(d)-2] == 'T'
				p := parse(got)
				if !p.WellFormed {
					w.Violate("C05 pointer-verb", "ill-formed output "+q(got)+" for Sprintf("+q(format)+", "+pc.name+")", cs)
					continue
				}
				if st := refStrip(p); st != want && !isT {
					w.Violate("C05 pointer-verb", "Sprintf("+q(format)+", "+pc.name+") strips to "+q(st)+", fmt prints "+q(want), cs)
					continue
				}
				if isT {
					// the type name is safe text, except under Unsafe(), whose whole rendering is enveloped (C06)
					_, underUnsafe := pc.operand.(interface{ GetValue() interface{} })
					if _, isSafe := pc.operand.(redact.SafeValue); isSafe {
						underUnsafe = false
					}
					if underUnsafe {
						if so := safeOnly(p); so != "a  z" && so != "a | z" {
							w.Violate("C05 pointer-verb", "type name of an Unsafe() operand outside envelopes: "+q(got), cs)
						}
					} else if len(p.Env) != 0 {
						w.Violate("C05 pointer-verb", "type name enveloped: "+q(got)+" for Sprintf("+q(format)+", "+pc.name+")", cs)
					}
					continue
				}
				if pc.safe {
					if got != want {
						w.Violate("C05 pointer-verb", "address of a value declared safe: Sprintf("+q(format)+", "+pc.name+") = "+q(got)+", want "+q(want)+" without envelopes", cs)
					}
				} else if so := safeOnly(p); so != "a  z" {
					w.Violate("C05 pointer-verb", "address of a value not declared safe: Sprintf("+q(format)+", "+pc.name+") = "+q(got)+": text outside envelopes "+q(so)+", want only the literals", cs)
				}
				w.Nontrivial(hashStrs("ptr", format, pc.name, sprint(registeredPtr)))
			}
		}
		// at depth: pointers print as addresses inside containers
		a1, a2 := fmt.Sprintf("%p", c05ptrS), fmt.Sprintf("%p", &c05ptrX)
		got := string(redact.Sprintf("%v", []interface{}{c05ptrS, &c05ptrX, redact.Safe(&c05ptrX)}))
		w.Eval(1)
		if want := "[" + a1 + " " + startM + a2 + endM + " " + a2 + "]"; canon(got) != want {
			w.Violate("C05 pointer-verb", "pointers inside a slice: "+q(got)+" want "+q(want), map[string]string{"format": "%v", "operand": "[]interface{}{*T with SafeValue, *int, Safe(*int)}"})
		}
		w.Count("pointer_verb_cases", int64(len(cases)*len(dirs)))
	})
}

// c05badVerbContainers: a verb that is reported for the operand as a whole (%w outside HelperForErrorf, %p on a struct,
// array or string) makes the printer walk the operand with its "reporting an error" flag set, a path on which no
// formatting method is called. The classification of the elements must not depend on that flag: wrappers, SafeValues,
// registered types and redactables inside the container keep their side. (The bracket stand-ins rely on a Format
// method, which fmt does not call on this path either, so the expectations are written out.)
func c05badVerbContainers(c *Ctx, cfg map[string]bool) {
	rs := "a " + startM + "b" + endM
	rr := redact.RedactableString(rs)
	u := func(s string) string { return startM + s + endM }
	reg := func(s string) string {
		if cfg["RegInt"] {
			return s
		}
		return u(s)
	}
	cases := []struct {
		format  string
		operand interface{}
		want    string
	}{
		{"%w", []interface{}{redact.Unsafe(tRegInt(7)), redact.Safe("s"), "u", tRegInt(8), tSVInt(9), rr}, "%!w([]interface {}=[" + u("7") + " s " + u("u") + " " + reg("8") + " 9 " + rs + "])"},
		{"%p", tS2{redact.Unsafe(tRegInt(7)), rr}, "%!p(main.tS2={" + u("7") + " " + rs + "})"},
		{"%w", map[string]interface{}{"k": redact.Unsafe(tSVInt(3))}, "%!w(map[string]interface {}=map[" + u("k") + ":" + u("3") + "])"},
		{"%w", redact.Unsafe(tSVInt(3)), u("%!w(main.tSVInt=3)")},
		{"%w", redact.Safe("x" + startM), "%!w(string=x?)"},
		{"%w", []redact.RedactableString{rr, rr}, "%!w([]markers.RedactableString=[" + rs + " " + rs + "])"},
		{"%p", [1]redact.RedactableBytes{redact.RedactableBytes(rs)}, "%!p([1]markers.RedactableBytes=[" + rs + "])"},
		{"%w", tS2{rr, redact.Safe(rr)}, "%!w(main.tS2={" + rs + " " + rs + "})"},
		{"%w", &tS2{rr, 5}, "%!w(*main.tS2=&{" + rs + " " + u("5") + "})"},
		{"%w", tSVStruct{redact.Unsafe("in"), tRegInt(4)}, "%!w(main.tSVStruct={in 4})"}, // safe as a whole: the outermost classification wins
		{"%p", [2]interface{}{tRegInt(5), redact.Unsafe(redact.Safe("deep"))}, "%!p([2]interface {}=[" + reg("5") + " " + u("deep") + "])"},
		{"%-9w|", []interface{}{redact.Safe(3), 4}, "%!w([]interface {}=[3         " + u("4        ") + "])|"},
	}
	c.ParallelFor(int64(len(cases)), func(w *Worker, i int64) {
		cse := cases[i]
		for _, route := range []int{routeS, routeBuilder, routeFn, routeSF} {
			o := runRedact(route, false, cse.format, []interface{}{cse.operand})
			w.Eval(1)
			cs := map[string]string{"format": cse.format, "operand": sprintType(cse.operand), "route": routeNames[route]}
			if o.panicked {
				w.Violate("C05 bad-verb-container", routeNames[route]+" panicked on "+q(cse.format)+" with "+sprintType(cse.operand)+": "+pvalString(o.pval), cs)
				continue
			}
			if canon(o.out) != canon(cse.want) {
				w.Violate("C05 bad-verb-container", routeNames[route]+"("+q(cse.format)+", "+sprintType(cse.operand)+") = "+q(o.out)+", want "+q(cse.want)+" (elements keep their classification while a bad verb is reported for the whole operand)", cs)
				continue
			}
			w.Nontrivial(hashStrs("badverb", cse.format, sprintType(cse.operand), routeNames[route], sprint(cfg["RegInt"])))
		}
	})
}

// c05unexported: unexported struct fields are printed without any method and, unless their type is registered, are
// never declared safe; an exported sibling that is a SafeValue (and printed through its own method) must not change
// that. Written-out expectations: every leaf is what fmt prints for it under the directive, unsafe ones enveloped.
type tUnexpAfterSafe struct {
	Label  tSVStringer
	secret string
	pin    int
	Reg    tRegInt
	flag   bool
	Tail   tSVStr
	last   string
}

func c05unexported(c *Ctx, cfg map[string]bool) {
	u := func(s string) string { return wrapUnsafe(s) }
	v := tUnexpAfterSafe{tSVStringer{"acct"}, "hunter2", 1234, tRegInt(7), true, tSVStr("pub"), "end" + startM}
	dirs := []string{"%v", "%+v", "%10v", "%-8v", "%+12v", "%3v", "%+-9v"} // verbs valid for every leaf
	c.ParallelFor(int64(len(dirs)), func(w *Worker, i int64) {
		d := dirs[i]
		leaf := func(x interface{}) string { return esc(fmt.Sprintf(strings.Replace(d, "+", "", 1), x)) }
		name := func(n string) string {
			if strings.Contains(d, "+") {
				return n + ":"
			}
			return ""
		}
		reg := leaf(v.Reg)
		if !cfg["RegInt"] {
			reg = u(reg)
		}
		// the two SafeValue fields: Label through its String method, Tail as a string
		want := "{" + name("Label") + leaf(v.Label) + " " + name("secret") + u(leaf(v.secret)) + " " + name("pin") + u(leaf(v.pin)) + " " + name("Reg") + reg + " " +
			name("flag") + u(leaf(v.flag)) + " " + name("Tail") + leaf(string(v.Tail)) + " " + name("last") + u(leaf(v.last)) + "}"
		for _, operand := range []interface{}{v, &v, []interface{}{v}} {
			exp := want
			switch operand.(type) {
			case *tUnexpAfterSafe:
				exp = "&" + want
			case []interface{}:
				exp = "[" + want + "]"
			}
			for _, route := range []int{routeS, routeBuilder, routeSF} {
				o := runRedact(route, false, "a "+d+" z", []interface{}{operand})
				w.Eval(1)
				cs := map[string]string{"format": d, "operand": sprintType(operand), "route": routeNames[route]}
				if o.panicked {
					w.Violate("C05 unexported-after-safe", routeNames[route]+" panicked: "+pvalString(o.pval), cs)
					continue
				}
				if canon(o.out) != canon("a "+exp+" z") {
					w.Violate("C05 unexported-after-safe", routeNames[route]+"("+q(d)+", "+sprintType(operand)+") = "+q(o.out)+", want "+q("a "+exp+" z")+" (unexported fields stay enveloped whatever their exported neighbours are)", cs)
					continue
				}
				w.Nontrivial(hashStrs("unexp", d, sprintType(operand), routeNames[route], sprint(cfg["RegInt"])))
			}
		}
	})
}

// c05builtinRegistered: "for all sets of types registered with RegisterSafeType" includes the built-in types themselves.
// With string and int registered, values of exactly these types are safe wherever they occur (map keys and values,
// typed and interface-typed elements, fields, behind pointers); named types derived from them are not.
func c05builtinRegistered(c *Ctx) {
	redact.VerifResetSafeTypes()
	redact.RegisterSafeType(reflect.TypeOf(""))
	redact.RegisterSafeType(reflect.TypeOf(0))
	defer redact.VerifResetSafeTypes()
	u := func(s string) string { return wrapUnsafe(s) }
	x := 7
	cases := []struct {
		format  string
		operand interface{}
		want    string
	}{
		{"%v", "s" + startM, "s?"},
		{"%5d|", 42, "   42|"},
		{"%v", map[string]string{"k": "v"}, "map[k:v]"},
		{"%v", map[string]int{"a": 1, "b": 2}, "map[a:1 b:2]"},
		{"%v", map[interface{}]interface{}{"k": 1}, "map[k:1]"},
		{"%v", map[interface{}]interface{}{tNStr("n"): int8(3)}, "map[" + u("n") + ":" + u("3") + "]"},
		{"%q", []string{"a", "b"}, `["a" "b"]`},
		{"%v", []interface{}{"a", 1, 2.5, tNInt(4)}, "[a 1 " + u("2.5") + " " + u("4") + "]"},
		{"%+v", struct {
			S string
			N int
			F float64
			t string
		}{"s", 1, 1.5, "t"}, "{S:s N:1 F:" + u("1.5") + " t:t}"},
		{"%v", &struct{ P *int }{&x}, "&{" + u(fmt.Sprintf("%p", &x)) + "}"},
		{"%v", [2]string{"x", "y"}, "[x y]"},
		{"%x", "hi", "6869"},
		{"%v", redact.Unsafe("u"), u("u")},
		{"%v", []interface{}{redact.Unsafe("u"), redact.Unsafe(3)}, "[" + u("u") + " " + u("3") + "]"},
		{"%d", []int{1, 2}, "[1 2]"},
		{"%v", errors.New("e"), u("e")},
	}
	c.ParallelFor(int64(len(cases)), func(w *Worker, i int64) {
		cse := cases[i]
		for _, route := range []int{routeS, routeBuilder, routeSF} {
			o := runRedact(route, false, "a "+cse.format+" z", []interface{}{cse.operand})
			w.Eval(1)
			cs := map[string]string{"format": cse.format, "operand": sprintType(cse.operand), "route": routeNames[route], "registered": "string,int"}
			if o.panicked {
				w.Violate("C05 builtin-registered", routeNames[route]+" panicked: "+pvalString(o.pval), cs)
				continue
			}
			if canon(o.out) != canon("a "+cse.want+" z") {
				w.Violate("C05 builtin-registered", "with string and int registered as safe types, "+routeNames[route]+"("+q(cse.format)+", "+sprintType(cse.operand)+") = "+q(o.out)+", want "+q("a "+cse.want+" z"), cs)
				continue
			}
			w.Nontrivial(hashStrs("builtinreg", cse.format, sprintType(cse.operand), routeNames[route]))
		}
	})
}
