package main

// C17, panic payloads: when a user method panics with a value that is an error, the report %!v(PANIC=<method> method: <payload>)
// renders the payload the way the same error is rendered as an ordinary operand in that classification: through the
// hook when one is installed (not under Unsafe), as the error's own text otherwise.

import (
	"errors"
	"fmt"
	"strings"

	"github.com/cockroachdb/redact"
)

type c17panicker struct {
	payload func() interface{}
}

func (p c17panicker) String() string { panic(p.payload()) }

type c17sfPanicker struct {
	payload func() interface{}
}

func (p c17sfPanicker) SafeFormat(sp redact.SafePrinter, _ rune) {
	sp.SafeString("part;")
	panic(p.payload())
}

func c17panicPayloads(c *Ctx, hooked bool) {
	type pcase struct {
		name string
		mk   func(lg *hookLog) error
		id   int
	}
	payloads := []pcase{
		{"errors.New", func(*hookLog) error { return errors.New("boom" + startM) }, -1},
		{"hookable error", func(lg *hookLog) error { return hErr{hBase{777, func() *hookLog { return lg }, false}} }, 777},
		{"runtime error", func(*hookLog) error {
			var e error
			func() {
				defer func() { e, _ = recover().(error) }()
				var s []int
				_ = s[3]
			}()
			return e
		}, -1},
		{"wrapped error", func(*hookLog) error { return fmt.Errorf("ctx: %w", errors.New("inner")) }, -1},
	}
	shapes := []string{"top", "slice", "safe", "unsafe", "safeformat", "field"}
	type job struct{ p, s int }
	var jobs []job
	for p := range payloads {
		for s := range shapes {
			jobs = append(jobs, job{p, s})
		}
	}
	c.ParallelFor(int64(len(jobs)), func(w *Worker, i int64) {
		pc, shape := payloads[jobs[i].p], shapes[jobs[i].s]
		lg := &hookLog{}
		err := pc.mk(lg)
		cs := map[string]string{"payload": pc.name, "shape": shape, "hook": sprint(hooked)}
		// how the same error prints as an ordinary operand in the classification of the shape
		var asOperand string
		switch shape {
		case "safe":
			asOperand = string(redact.Sprintf("%v", redact.Safe(err)))
		case "unsafe":
			asOperand = string(redact.Sprintf("%v", redact.Unsafe(err)))
		default:
			asOperand = string(redact.Sprintf("%v", err))
		}
		lg.calls = nil
		st := c17panicker{func() interface{} { return err }}
		var out, want string
		pan := func() (p interface{}) {
			defer func() { p = recover() }()
			switch shape {
			case "top":
				out = string(redact.Sprintf("a %v z", st))
				want = "a %!v(PANIC=String method: " + asOperand + ") z"
			case "slice":
				out = string(redact.Sprintf("a %v z", []interface{}{1, st}))
				want = "a [" + wrapUnsafe("1") + " %!v(PANIC=String method: " + asOperand + ")] z"
			case "field":
				out = string(redact.Sprintf("a %+v z", tS2{st, redact.Safe("s")}))
				want = "a {A:%!v(PANIC=String method: " + asOperand + ") B:s} z"
			case "safe":
				out = string(redact.Sprintf("a %v z", redact.Safe(st)))
				want = "a %!v(PANIC=String method: " + asOperand + ") z"
			case "unsafe":
				out = string(redact.Sprintf("a %v z", redact.Unsafe(st)))
				want = "a " + wrapUnsafe("%!v(PANIC=String method: ") + asOperand + wrapUnsafe(")") + " z"
			default:
				out = string(redact.Sprintf("a %v z", c17sfPanicker{func() interface{} { return err }}))
				want = "a part;%!v(PANIC=SafeFormat method: " + asOperand + ") z"
			}
			return nil
		}()
		w.Eval(1)
		if pan != nil {
			w.Violate("C17 panic-payload", "panic escaped ("+pvalString(pan)+"): a method panicking with "+pc.name+", shape "+shape, cs)
			return
		}
		if canon(out) != canon(want) {
			w.Violate("C17 panic-payload", "a method panicking with "+pc.name+" (shape "+shape+", hook "+sprint(hooked)+"): got "+q(out)+", want "+q(want)+" (the payload rendered like the same error as an operand: "+q(asOperand)+")", cs)
			return
		}
		if pc.id == 777 {
			wantCalls := 1
			if !hooked || shape == "unsafe" {
				wantCalls = 0
			}
			if len(lg.calls) != wantCalls {
				w.Violate("C17 panic-payload", "hook called "+itoa(len(lg.calls))+" times for the payload, want "+itoa(wantCalls)+" (shape "+shape+", hook "+sprint(hooked)+")", cs)
				return
			}
		}
		w.Nontrivial(hashStrs("panicpayload", pc.name, shape, sprint(hooked)))
	})
}

// c17nestedCauses: a hook that prints the cause of an error through the printer it was given (Print for odd ids, Printf
// for even ones): the cause is itself rendered by the hook, also when outer error and cause have the same dynamic
// type and that type is not comparable.
func c17nestedCauses(c *Ctx, hooked bool) {
	shapes := []string{"top", "slice", "safe", "unsafe", "errorf"}
	type job struct{ id, s int }
	var jobs []job
	for _, id := range []int{801, 802} {
		for s := range shapes {
			jobs = append(jobs, job{id, s})
		}
	}
	c.ParallelFor(int64(len(jobs)), func(w *Worker, i int64) {
		id, shape := jobs[i].id, shapes[jobs[i].s]
		lg := &hookLog{}
		logf := func() *hookLog { return lg }
		inner := hNestErr{hBase{id + 10, logf, false}, []string{"t"}, nil}
		e := hNestErr{hBase{id, logf, false}, []string{"a", "b"}, inner}
		h := func(n int, safe bool) string {
			d := wrapUnsafe("d" + itoa(n))
			if safe {
				d = "d" + itoa(n)
			}
			return "H<" + itoa(n) + "|v|" + d + ">"
		}
		plain := wrapUnsafe(e.Error())
		var out, want string
		var rerr error
		wantCalls := 2
		pan := func() (p interface{}) {
			defer func() { p = recover() }()
			switch shape {
			case "top":
				out, want = string(redact.Sprintf("a %v z", e)), "a "+h(id, false)+h(id+10, false)+" z"
			case "slice":
				out, want = string(redact.Sprintf("a %v z", []interface{}{e})), "a ["+h(id, false)+h(id+10, false)+"] z"
			case "safe":
				out, want = string(redact.Sprintf("a %v z", redact.Safe(e))), "a "+h(id, true)+h(id+10, true)+" z"
			case "unsafe":
				out, want = string(redact.Sprintf("a %v z", redact.Unsafe(e))), "a "+plain+" z"
				wantCalls = 0
			default:
				var s redact.RedactableString
				s, rerr = redact.HelperForErrorf("a %w z", e)
				out, want = string(s), "a "+h(id, false)+h(id+10, false)+" z"
			}
			return nil
		}()
		if !hooked {
			want, wantCalls = "a "+plain+" z", 0
			if shape == "slice" {
				want = "a [" + plain + "] z"
			}
			if shape == "safe" {
				want = "a " + e.Error() + " z"
			}
		}
		w.Eval(1)
		cs := map[string]string{"shape": shape, "hook": sprint(hooked), "id": itoa(id)}
		if pan != nil {
			w.Violate("C17 nested-cause", "panic escaped ("+pvalString(pan)+"): an error whose cause the hook prints, shape "+shape, cs)
			return
		}
		if canon(out) != canon(want) {
			w.Violate("C17 nested-cause", "an error of an uncomparable type whose cause (same type) the hook prints through its printer, shape "+shape+", hook "+sprint(hooked)+": got "+q(out)+", want "+q(want), cs)
			return
		}
		if len(lg.calls) != wantCalls {
			w.Violate("C17 nested-cause", "hook called "+itoa(len(lg.calls))+" times, want "+itoa(wantCalls)+" (outer error and its cause), shape "+shape+", hook "+sprint(hooked), cs)
			return
		}
		if shape == "errorf" && rerr == nil {
			w.Violate("C17 nested-cause", "HelperForErrorf(%w) did not return the error", cs)
			return
		}
		w.Nontrivial(hashStrs("nestedcause", shape, itoa(id), sprint(hooked)))
	})
}

// c17numericErrors: errors whose kind is numeric (the syscall.Errno idiom) or string, under the verbs that fmt would
// apply to the number itself: with a hook installed the hook renders them under every verb, at top level and inside
// containers alike; without a hook fmt's rendering applies (C04).
type cErrno uintptr

func (e cErrno) Error() string { return "errno " + itoa(int(e)) }

type cErrFloat float64

func (e cErrFloat) Error() string { return "ferr" }

type cErrText string

func (e cErrText) Error() string { return "text:" + string(e) }

func c17numericErrors(c *Ctx, hooked bool) {
	errs := []error{cErrno(2), cErrFloat(2.5), cErrText("t" + startM)}
	dirs := []string{"%v", "%d", "%05d", "%+d", "%-8.3o", "%#b", "%6.2f", "%U", "%x", "%q", "%s", "%c", "%e", "%g"}
	shapes := []string{"top", "slice", "errs", "map-value", "map-key", "field", "ptr", "array", "safe", "unsafe"}
	type job struct{ e, d, s int }
	var jobs []job
	for e := range errs {
		for d := range dirs {
			for s := range shapes {
				jobs = append(jobs, job{e, d, s})
			}
		}
	}
	c.ParallelFor(int64(len(jobs)), func(w *Worker, i int64) {
		e, d, shape := errs[jobs[i].e], dirs[jobs[i].d], shapes[jobs[i].s]
		verb := d[len(d)-1:]
		cs := map[string]string{"error": sprintType(e), "directive": d, "shape": shape, "hook": sprint(hooked)}
		var operand, twinOperand interface{}
		// the hook's rendering of e (not hookable: id -1), as the fmt-side stand-in prints it
		unsafeCtx, safeCtx := false, false
		switch shape {
		case "top":
			operand = e
		case "slice":
			operand = []interface{}{e}
		case "errs":
			operand = []error{e}
		case "map-value":
			operand = map[string]error{"k": e}
		case "map-key":
			operand = map[error]int{e: 1}
		case "field":
			operand = struct{ E error }{e}
		case "ptr":
			operand = &struct{ E error }{e}
		case "array":
			operand = [1]error{e}
		case "safe":
			operand, safeCtx = redact.Safe(e), true
		default:
			operand, unsafeCtx = redact.Unsafe(e), true
		}
		out := runRedact(routeS, false, "a "+d+" z", []interface{}{operand})
		w.Eval(1)
		if out.panicked {
			w.Violate("C17 numeric-error", "panic escaped: "+pvalString(out.pval)+" for "+sprintType(operand)+" under "+d, cs)
			return
		}
		if !hooked || unsafeCtx {
			// fmt's rendering (hook bypassed or absent): text equality with fmt, everything of the error enveloped
			twinOperand = operand
			if unsafeCtx {
				twinOperand = e
			}
			if safeCtx {
				twinOperand = e
			}
			fo := runFmt(false, false, "a "+d+" z", []interface{}{twinOperand})
			if fo.panicked {
				return
			}
			if got, want := redact.RedactableString(out.out).StripMarkers(), esc(fo.out); got != want {
				w.Violate("C17 numeric-error", "Sprintf("+q(d)+", "+sprintType(operand)+") strips to "+q(got)+", fmt prints "+q(want)+" (hook "+sprint(hooked)+")", cs)
			}
			return
		}
		// hook installed: the error is rendered by the hook alone, with the verb of the directive
		h := "H<-1|" + verb + "|" + wrapUnsafe("d-1") + ">"
		if safeCtx {
			h = "H<-1|" + verb + "|d-1>"
		}
		if !strings.Contains(canon(out.out), h) {
			w.Violate("C17 numeric-error", "with the hook installed, Sprintf("+q(d)+", "+sprintType(operand)+") = "+q(out.out)+" does not contain the hook's rendering "+q(h)+" of the error", cs)
			return
		}
		if strings.Contains(out.out, "errno") || strings.Contains(out.out, "ferr") || strings.Contains(out.out, "text:") {
			w.Violate("C17 numeric-error", "with the hook installed, the error's own text appears in "+q(out.out), cs)
			return
		}
		w.Nontrivial(hashStrs("numerr", sprintType(e), d, shape))
	})
}
