package main

import "fmt"

func fmtSprint(v interface{}) string { return fmt.Sprint(v) }
