package main

// C12 — a print call's result depends only on its own arguments; no data races.
//
// Phases (child process each, in this order):
//   ref    fresh process: reference result of every probe, each computed after
//          two forced GCs with the pool proven empty (tagged allocation counter)
//   main   plain build: abnormal-call histories followed by probes, pool
//          invariant at quiescent points (tagged drain hook)
//   race   race-detector build: the same under 2..16 goroutines x GOMAXPROCS
//          1..16 with yields inside user callbacks; every result retained and
//          re-hashed at the end; the driver counts the race reports

import (
	"bytes"
	"encoding/json"
	"errors"
	"fmt"
	"os"
	"path/filepath"
	"reflect"
	"runtime"
	"strings"
	"sync"
	"sync/atomic"
	"time"

	"github.com/cockroachdb/redact"
)

func init() {
	register("C12", &monitor{
		phases: func(tier string) []string { return []string{"ref", "main", "race"} },
		run:    runC12,
		rule: "a fixed set of probe calls through every entry point (plain, padded, bad verb, %w through HelperForErrorf, Safe/Unsafe, nested printers three deep, Formatters and SafeFormatters printing Width/Precision/flags unguarded, builders, Join, contained panics) has reference results computed in a fresh process with an empty pool; " +
			"in the run under test, histories drawn from an abnormal-call catalogue (contained and propagated panics, > 64 KiB outputs, huge widths, bad indexes, misuse of %w, overrides around re-entrant formatters, panicking callbacks) are followed by the probes, single-threaded and under 2-16 goroutines x GOMAXPROCS 1-16 with yields inside user callbacks, in a race-detector build; " +
			"oracle: every probe result equals its reference, pooled printers are pristine at quiescent points, retained results unchanged at the end, zero race reports; non-trivial = the probe ran on a recycled printer after an abnormal call; distinct = distinct (history, probe, configuration)",
	})
}

// ---- probes -------------------------------------------------------------------------------------

type probeResult struct {
	Text QS     `json:"text"`
	Err  string `json:"err,omitempty"`
}

type probe struct {
	name string
	run  func(y func()) probeResult // y: yield hook called inside user callbacks
}

// widthReader prints what it sees, unguarded, through the SafePrinter or the fmt.State.
type widthReader struct{ y func() }

func (r widthReader) Format(f fmt.State, verb rune) {
	if r.y != nil {
		r.y()
	}
	w, _ := f.Width()
	p, _ := f.Precision()
	fmt.Fprintf(f, "w%dp%d", w, p)
	for _, c := range "+-# 0" {
		if f.Flag(int(c)) {
			fmt.Fprintf(f, "%c", c)
		}
	}
}

type widthReaderSF struct {
	y    func()
	seen *[]string
}

func (r widthReaderSF) SafeFormat(p redact.SafePrinter, verb rune) {
	if r.y != nil {
		r.y()
	}
	if r.seen != nil {
		*r.seen = append(*r.seen, fmt.Sprintf("%p", p))
	}
	w, _ := p.Width()
	pr, _ := p.Precision()
	p.SafeString(redact.SafeString(fmt.Sprintf("w%dp%d", w, pr)))
	for _, c := range "+-# 0" {
		if p.Flag(int(c)) {
			p.SafeRune(redact.SafeRune(c))
		}
	}
	p.UnsafeString("u")
}

type nest struct {
	depth int
	y     func()
}

func (n nest) SafeFormat(p redact.SafePrinter, _ rune) {
	if n.y != nil {
		n.y()
	}
	p.SafeString("<")
	if n.depth > 0 {
		p.Printf("%d:%v", n.depth, nest{n.depth - 1, n.y})
		p.Print(redact.Safe("s"), "u")
	} else {
		p.UnsafeString("leaf")
	}
	p.SafeString(">")
}

type yStringer struct {
	s string
	y func()
}

func (s yStringer) String() string {
	if s.y != nil {
		s.y()
	}
	return s.s
}

var probeErr = errors.New("probe-error")

func probes() []probe {
	txt := func(s redact.RedactableString) probeResult { return probeResult{Text: QS(s)} }
	return []probe{
		{"plain", func(y func()) probeResult { return txt(redact.Sprintf("%d %s %v", 1, "x", true)) }},
		{"sprint", func(y func()) probeResult { return txt(redact.Sprint("a", 1, 2, "b", nil)) }},
		{"padded", func(y func()) probeResult { return txt(redact.Sprintf("%8.3f|%-6d|%06d|%x", 3.14159, 42, 42, "hi")) }},
		{"zero-padded", func(y func()) probeResult {
			return txt(redact.Sprintf("%08.3f|%06s|%-8q|%05t|%04c|%010x|%+09.2e", 3.14159, "ab", "q", true, 'x', "hex", 12345.678))
		}},
		{"space-padded", func(y func()) probeResult {
			return txt(redact.Sprintf("%8.3f|%6s|%8q|%5t|%4c|%10x|%12v", 3.14159, "ab", "q", true, 'x', "hex", redact.Safe("s")))
		}},
		{"wide-integers", func(y func()) probeResult {
			return txt(redact.Sprintf("%080d|%.72x|%+75.70d|%-70d|", 12345, 0xabcdef, -42, -2962962963))
		}},
		{"badverb", func(y func()) probeResult { return txt(redact.Sprintf("%z %!", 1)) }},
		{"missing-extra", func(y func()) probeResult { return txt(redact.Sprintf("%d %d", 1) + redact.Sprintf("%d", 1, 2)) }},
		{"index", func(y func()) probeResult { return txt(redact.Sprintf("%[2]d %[1]d %[9]d", 1, 2)) }},
		{"errorf", func(y func()) probeResult {
			s, e := redact.HelperForErrorf("wrap: %w!", probeErr)
			r := txt(s)
			if e == probeErr {
				r.Err = "probeErr"
			} else {
				r.Err = fmt.Sprint(e)
			}
			return r
		}},
		{"errorf-none", func(y func()) probeResult {
			s, e := redact.HelperForErrorf("no wrap: %v", probeErr)
			return probeResult{Text: QS(s), Err: fmt.Sprint(e)}
		}},
		{"sprintf-w", func(y func()) probeResult { return txt(redact.Sprintf("%w", probeErr)) }},
		{"safe-unsafe", func(y func()) probeResult {
			return txt(redact.Sprintf("%v %v %v", redact.Safe("s"), redact.Unsafe(redact.Safe("u")), redact.Safe(redact.Unsafe(3))))
		}},
		{"width-reader", func(y func()) probeResult {
			return txt(redact.Sprintf("%v|%5.2v|%+v", widthReader{y}, widthReader{y}, widthReader{y}))
		}},
		{"width-reader-sf", func(y func()) probeResult {
			return txt(redact.Sprintf("%v|%7.3v|%#v", widthReaderSF{y, nil}, widthReaderSF{y, nil}, widthReaderSF{y, nil}))
		}},
		{"width-reader-sprint", func(y func()) probeResult { return txt(redact.Sprint(widthReader{y}, widthReaderSF{y, nil})) }},
		{"nested3", func(y func()) probeResult { return txt(redact.Sprint(nest{3, y})) }},
		{"nested-under-unsafe", func(y func()) probeResult { return txt(redact.Sprintf("%v", redact.Unsafe(nest{2, nil}))) }}, // printed structurally: no func value inside
		{"nested-under-safe", func(y func()) probeResult { return txt(redact.Sprintf("%v", redact.Safe(nest{2, y}))) }},
		{"stringer", func(y func()) probeResult {
			return txt(redact.Sprintf("%v %q %x", yStringer{"st\nr", y}, yStringer{startM, y}, yStringer{"z", y}))
		}},
		{"contained-panic", func(y func()) probeResult {
			return txt(redact.Sprintf("a %v z", tPanicStringer{panicSpec{mode: 0, msg: "probe-boom"}}))
		}},
		{"contained-panic-sf", func(y func()) probeResult {
			return txt(redact.Sprint(c11outer{"o1", "o2", tPanicErr{panicSpec{mode: 1, msg: "pe"}}, true, ""}))
		}},
		{"sprintfn", func(y func()) probeResult {
			return txt(redact.Sprintfn(func(p redact.SafePrinter) {
				if y != nil {
					y()
				}
				p.SafeInt(5)
				p.UnsafeString("u\n")
				p.Printf("%03d", 7)
				p.SafeRune('!')
			}))
		}},
		{"builder", func(y func()) probeResult {
			var b redact.StringBuilder
			b.SafeString("s")
			b.Printf("%5v", yStringer{"x", y})
			b.UnsafeByte('b')
			b.Print(redact.Safe(1), 2)
			return txt(b.RedactableString())
		}},
		{"fprint", func(y func()) probeResult {
			var b bytes.Buffer
			n, err := redact.Fprintf(&b, "%s-%d", "f", 9)
			return probeResult{Text: QS(b.String()), Err: fmt.Sprint(n, err)}
		}},
		{"join-escape", func(y func()) probeResult {
			return txt(redact.Join(", ", []redact.RedactableString{redact.Sprint("a"), redact.EscapeBytes([]byte("b" + endM)).ToString()}))
		}},
		{"containers", func(y func()) probeResult {
			return txt(redact.Sprintf("%+v %v %#v", struct {
				A int
				B interface{}
			}{1, redact.Safe("s")}, map[string]int{"k": 1, "a": 2}, []interface{}{"x", nil}))
		}},
		{"big-then-small", func(y func()) probeResult {
			return txt(redact.Sprintf("%s", strings.Repeat("k", 100)) + redact.Sprintf("%s", "k"))
		}},
		{"forwarding", func(y func()) probeResult {
			// directives re-created with MakeFormat: by a forwarding Formatter under redact, and by the wrappers under fmt
			return probeResult{Text: QS(string(redact.Sprintf("%37s|%-9.3v|%+5d|%x", forwarder{"ab"}, forwarder{3.14159}, forwarder{42}, forwarder{"hx"})) +
				fmt.Sprintf("|%37s|%-9.3v|%+5d|%06.2f", redact.Safe("ab"), redact.Unsafe(3.14159), redact.Safe(42), redact.Safe(2.5)))}
		}},
		{"literal-markers", func(y func()) probeResult { return txt(redact.Sprintf(startM+"%s"+endM+"\xe2", "d"+startM)) }},
	}
}

// ---- abnormal calls --------------------------------------------------------------------------------

type abnormal struct {
	name string
	run  func(y func())
}

type reentrantY struct{ y func() }

func (r reentrantY) Format(f fmt.State, verb rune) {
	if r.y != nil {
		r.y()
	}
	if sp, ok := f.(redact.SafePrinter); ok {
		sp.Print(redact.Safe("in"), "u")
		sp.Printf("%07.3d", 5)
		sp.SafeString("s")
	}
}

// reentrantBad finds the SafePrinter behind its fmt.State and prints an operand whose method panics with an unprintable payload.
type reentrantBad struct{ bad interface{} }

func (r reentrantBad) Format(f fmt.State, verb rune) {
	if sp, ok := f.(redact.SafePrinter); ok {
		sp.Print("before", r.bad)
		sp.Printf("%v", r.bad)
	}
}

func abnormals() []abnormal {
	rec := func(f func()) {
		defer func() { recover() }()
		f()
	}
	big := strings.Repeat("0123456789abcdef", 5000) // 80 KB
	return []abnormal{
		{"contained-panic", func(y func()) { _ = redact.Sprintf("%v", tPanicStringer{panicSpec{mode: 1, msg: "c"}}) }},
		{"propagated-panic", func(y func()) {
			rec(func() { _ = redact.Sprintf("%v %d", tPanicStringer{panicSpec{mode: 4, msg: "p"}}, 1) })
		}},
		{"propagated-through-nested", func(y func()) {
			rec(func() {
				_ = redact.Sprint(c11outer{"h1", "h2", tPanicStringer{panicSpec{mode: 4, msg: "p"}}, true, ""})
			})
		}},
		{"propagated-through-nested-under-safe", func(y func()) {
			// the nested printers inherit the wrapper's override and are unwound by the panic
			rec(func() {
				_ = redact.Sprint(redact.Safe(c11outer{"h1", "h2", tPanicStringer{panicSpec{mode: 4, msg: "p"}}, false, ""}))
			})
			rec(func() {
				_ = redact.Sprintf("%v", redact.Safe(c11outer{"h1", "h2", tPanicErr{panicSpec{mode: 4, msg: "p"}}, true, "+"}))
			})
		}},
		{"propagated-through-nested-under-unsafe", func(y func()) {
			rec(func() {
				_ = redact.Sprintf("%v", redact.Unsafe(reentrantBad{tPanicStringer{panicSpec{mode: 4, msg: "p"}}}))
			})
		}},
		{"contained-after-nested-repanic", func(y func()) {
			k := 1
			_ = redact.Sprint(c11outer{"h1", "h2", tPanicStringer{panicSpec{mode: 5, msg: "p", k: &k}}, false, ""})
		}},
		{"huge-output", func(y func()) { _ = redact.Sprintf("%s|%s", big, redact.Safe(big)) }},
		{"huge-width", func(y func()) { _ = redact.Sprintf("%77.33d|%-1000s|%*d", 1, "x", 999, 2) }},
		{"bad-index", func(y func()) { _ = redact.Sprintf("%[9]d %[0]d %[x]d %[1]*d", 1, 2) }},
		{"second-w", func(y func()) { _, _ = redact.HelperForErrorf("%w %w", probeErr, errors.New("second")) }},
		{"non-error-w", func(y func()) { _, _ = redact.HelperForErrorf("%w", tStringer{"not an error"}) }},
		{"w-then-missing", func(y func()) { _, _ = redact.HelperForErrorf("%w %w", probeErr) }},
		{"override-reentrant", func(y func()) {
			_ = redact.Sprintf("%+08.2v %v", redact.Unsafe(reentrantY{y}), redact.Safe(reentrantY{y}))
		}},
		{"nested-deep", func(y func()) { _ = redact.Sprintf("%12.5v", nest{4, y}) }},
		{"panicking-callback", func(y func()) {
			rec(func() {
				_ = redact.Sprintfn(func(p redact.SafePrinter) {
					p.UnsafeString("half")
					p.Printf("%99.9v", 1)
					panic("callback")
				})
			})
		}},
		{"panicking-safeformat-mid-envelope", func(y func()) {
			_ = redact.Sprint(tSafeFmt{[]*D{dS("sUnsafeString", "open"), {K: "sPanic", S: "mid", N: 2}}, func() *buildCtx { return newBuildCtx() }})
		}},
		{"builder-big", func(y func()) {
			var b redact.StringBuilder
			b.Printf("%s", big)
			_ = b.RedactableString()
		}},
		{"wide-integers", func(y func()) { _ = redact.Sprintf("%090d %.80b %+72.71d", 987654321, 5, 77) }},
		{"zero-pads", func(y func()) { _ = redact.Sprintf("%012.4f %08s %06t %09q", 2.5, "z", false, "q") }},
		{"forwarding-other-verbs", func(y func()) {
			// the same flags, widths and precisions as the "forwarding" probe under verbs that share their low byte
			// (U+0173/'s', U+0176/'v', U+0164/'d') or low 16 bits (U+10073/'s') with the verbs used there
			_ = redact.Sprintf("%37\u0173|%-9.3\u0176|%+5\u0164|%37\U00010073|%\u0178", forwarder{"ab"}, forwarder{3.14159}, forwarder{42}, forwarder{"ab"}, forwarder{"hx"})
			_ = fmt.Sprintf("%37\u0173|%-9.3\u0176|%+5\u0164|%06.2\u0166", redact.Safe("ab"), redact.Unsafe(3.14159), redact.Safe(42), redact.Safe(2.5))
		}},
		{"flags-everywhere", func(y func()) { _ = redact.Sprintf("%+#-0 33.11v %+#-0 33.11x", 3.5, "s") }},
	}
}

// ---- reference ---------------------------------------------------------------------------------------

func c12refPath() string {
	dir := os.Getenv("RVMON_OUTDIR")
	if dir == "" {
		dir = os.TempDir()
	}
	return filepath.Join(dir, "c12ref.json")
}

func runC12ref(c *Ctx) {
	ref := map[string]probeResult{}
	c.Serial(func(w *Worker) {
		for _, p := range probes() {
			runtime.GC()
			runtime.GC()
			// The pool is empty: every Get allocates.
			if _, news := redact.VerifDrainPool(4); news != 4 {
				c.Inconclusive("pool not empty after two GCs while computing the reference of " + p.name)
			}
			runtime.GC()
			runtime.GC()
			before := redact.VerifPoolNews()
			ref[p.name] = p.run(nil)
			if redact.VerifPoolNews() == before && p.name != "join-escape" {
				c.Inconclusive("probe " + p.name + " did not allocate a printer: not running on a cold pool")
			}
			w.Eval(1)
			w.Nontrivial(hashStr(p.name))
			w.Sample(map[string]interface{}{"probe": p.name, "reference": ref[p.name]})
		}
	})
	b, _ := json.MarshalIndent(ref, "", " ")
	if err := os.WriteFile(c12refPath(), b, 0o644); err != nil {
		c.Inconclusive("cannot write the reference file: " + err.Error())
	}
	c.Extra("probes", len(ref))
}

func loadRef(c *Ctx) map[string]probeResult {
	b, err := os.ReadFile(c12refPath())
	if err != nil {
		c.Inconclusive("no reference file (phase ref must run first): " + err.Error())
		return nil
	}
	ref := map[string]probeResult{}
	if json.Unmarshal(b, &ref) != nil || len(ref) == 0 {
		c.Inconclusive("unreadable reference file")
		return nil
	}
	return ref
}

// ---- the run under test ---------------------------------------------------------------------------------

type retained struct {
	s string
	h uint64
}

func poolPristine(c *Ctx, where string) {
	states, _ := redact.VerifDrainPool(64)
	for _, s := range states {
		if s.BufLen != 0 || s.ValidUntil != 0 || s.Mode != 0 || s.MarkerOpen || s.Override != 0 || !s.ArgNil || !s.ValueInvalid || !s.WrappedErrNil || s.BufCap > 64<<10 {
			// Observation only: what a pooled printer looks like between uses is the
			// implementation's business as long as the next user is not affected, and
			// that is what the probes decide.
			c.AddCount("pooled_printers_with_leftover_state", 1)
			_ = where
		}
	}
	c.AddCount("pooled_printers_inspected", int64(len(states)))
}

func c12stress(c *Ctx, ref map[string]probeResult, goroutines, procs int, rounds int64, yields bool) {
	prev := runtime.GOMAXPROCS(procs)
	defer runtime.GOMAXPROCS(prev)
	ps, abs := probes(), abnormals()
	cfg := fmt.Sprintf("G=%d,P=%d", goroutines, procs)
	var wg sync.WaitGroup
	var handoffs, printersSeen int64
	var ownerMu sync.Mutex
	owner := map[string]int{}
	// Per-goroutine counters, summed after the goroutines have finished: a shared atomic
	// counter would order the goroutines' calls for the race detector and hide races.
	callsBy := make([]int64, goroutines)
	newsBefore := redact.VerifPoolNews()
	for g := 0; g < goroutines; g++ {
		wg.Add(1)
		go func(g int) {
			defer wg.Done()
			w := &Worker{C: c, ID: g, counts: map[string]int64{}}
			r := newRng(c.Seed, 0xc12, uint64(goroutines), uint64(procs), uint64(g))
			var keep []retained
			var y func()
			if yields {
				y = func() {
					if r.Chance(1, 3) {
						runtime.Gosched()
					} else if r.Chance(1, 40) {
						time.Sleep(time.Microsecond)
					}
				}
			}
			for i := int64(0); i < rounds; i++ {
				// history of abnormal calls
				var hist []string
				for k, n := 0, r.Intn(4); k < n; k++ {
					a := abs[r.Intn(len(abs))]
					a.run(y)
					hist = append(hist, a.name)
					callsBy[g]++
				}
				// which printer does this goroutine get now?
				var seen []string
				if !yields { // printer tracking takes a lock: only in the phase without the race detector
					_ = redact.Sprint(widthReaderSF{nil, &seen})
				}
				for _, addr := range seen {
					ownerMu.Lock()
					if o, ok := owner[addr]; !ok {
						printersSeen++
					} else if o != g {
						handoffs++
					}
					owner[addr] = g
					ownerMu.Unlock()
				}
				// probes
				for k, n := 0, 1+r.Intn(4); k < n; k++ {
					p := ps[r.Intn(len(ps))]
					got := func() (res probeResult) {
						defer func() {
							if pv := recover(); pv != nil {
								res = probeResult{Text: QS("PANIC ESCAPED: " + pvalString(pv))}
							}
						}()
						return p.run(y)
					}()
					callsBy[g]++
					w.Eval(1)
					if y != nil {
						y()
					}
					if want := ref[p.name]; got != want {
						c.Violate("C12 probe "+p.name, fmt.Sprintf("probe %s returned %q (err %q) after %v under %s; in a fresh process it returns %q (err %q)", p.name, got.Text, got.Err, hist, cfg, want.Text, want.Err),
							map[string]interface{}{"probe": p.name, "history": hist, "config": cfg, "got": got, "reference": want})
					}
					if len(keep) < 4000 {
						keep = append(keep, retained{string(got.Text), hashStr(string(got.Text))})
					}
					if len(hist) > 0 {
						w.Nontrivial(hashStrs(strings.Join(hist, ","), p.name, cfg))
					}
				}
			}
			// late re-verification: a result that aliases a recycled buffer would have changed by now
			for _, k := range keep {
				if hashStr(k.s) != k.h {
					c.Violate("C12 result-changed-later", "a returned string changed after the call returned (it aliases a recycled buffer) under "+cfg, map[string]interface{}{"config": cfg})
					break
				}
			}
			c.mu.Lock()
			c.res.Evaluations += w.evals
			c.mu.Unlock()
		}(g)
	}
	wg.Wait()
	var calls int64
	for _, n := range callsBy {
		calls += n
	}
	poolPristine(c, "end of "+cfg)
	news := redact.VerifPoolNews() - newsBefore
	c.AddCount("calls", calls)
	c.AddCount("pool_allocations", news)
	c.AddCount("printers_seen", printersSeen)
	c.AddCount("cross_goroutine_handoffs", handoffs)
	c.Extra("config."+cfg, map[string]int64{"calls": calls, "pool_allocations": news, "distinct_printers_seen": printersSeen, "cross_goroutine_handoffs": handoffs})
}

func runC12(c *Ctx) {
	switch c.Phase {
	case "ref":
		runC12ref(c)
		return
	}
	ref := loadRef(c)
	if ref == nil {
		return
	}
	if c.Phase == "race" {
		c12firstUse(c)
	}
	if c.Phase == "main" {
		// single-threaded histories first (deterministic reuse of the one cached printer), then all workers
		c12stress(c, ref, 1, 1, c.pick(8000, 300000), false)
		c12stress(c, ref, c.Workers, c.Workers, c.pick(1500, 60000), false)
	} else {
		reps := int(c.pick(1, 3))
		for rep := 0; rep < reps; rep++ {
			gs, pr := []int{2, 8, 16}, []int{1, 4, 16}
			if c.thorough() {
				gs, pr = []int{2, 4, 8, 16}, []int{1, 2, 4, 16}
			}
			for _, g := range gs {
				for _, p := range pr {
					c12stress(c, ref, g, p, c.pick(60, 500), true)
				}
			}
		}
	}
	if c.Phase == "race" {
		c12differential(c)
	}
	calls, news := c.counters["calls"], c.counters["pool_allocations"]
	c.Extra("printer_reuses(calls-allocations)", calls-news)
	if calls-news <= 0 {
		c.Inconclusive("no printer was recycled: the probes never ran on a reused printer")
	}
	c.res.Assumptions = []string{"the reference process is trusted to be unaffected by history (each probe ran after two GCs on a pool proven empty)", "registration calls are not raced against printing (the statement is about the printing API)"}
}

// c12differential: random calls of the fmt-compatible universe, each compared
// with fmt in the same goroutine, run by many goroutines at once in the race
// build. Interference between concurrent calls shows as a text difference (and
// as a race report); the case list is the one of C04 with another salt.
type safePrinterT = redact.SafePrinter
type safeIntT = redact.SafeInt

// c12firstUse: declared types with methods (SafeValue, Stringer, error, SafeFormatter) that nobody has printed yet in
// this process, each printed for the first time by one of 16 goroutines released together, at top level and inside a
// slice. Tables filled lazily per type or per method set are the target; the window is the very first use, so this
// runs once per process, before anything else touches these types.
func c12firstUse(c *Ctx) {
	const G = 16
	var gate atomic.Int32
	var wg sync.WaitGroup
	got := make([]string, len(firstUseValues))
	gotIn := make([]string, len(firstUseValues))
	for g := 0; g < G; g++ {
		wg.Add(1)
		go func(g int) {
			defer wg.Done()
			for gate.Load() == 0 {
			}
			for i := g; i < len(firstUseValues); i += G {
				got[i] = string(redact.Sprint(firstUseValues[i].v))
				gotIn[i] = string(redact.Sprintf("%v", []interface{}{firstUseValues[i].v}))
			}
		}(g)
	}
	gate.Store(1)
	wg.Wait()
	w0 := &Worker{C: c, ID: 0, counts: map[string]int64{}}
	for i, fu := range firstUseValues {
		want := strings.NewReplacer("\x01", startM, "\x02", endM).Replace(fu.want)
		w0.Eval(2)
		if canon(got[i]) != canon(want) || canon(gotIn[i]) != canon("["+want+"]") {
			c.Violate("C12 first-use", "a value of a type printed for the first time while 15 other goroutines print other new types: "+q(got[i])+" / "+q(gotIn[i])+", want "+q(want)+" / "+q("["+want+"]"), map[string]string{"type": sprintType(fu.v)})
		}
	}
	c.mu.Lock()
	c.res.Evaluations += w0.evals
	c.mu.Unlock()
	c.AddCount("declared_types_first_printed_concurrently", int64(len(firstUseValues)))
}

func c12differential(c *Ctx) {
	registerC04Types()
	o := c04opts()
	n := c.pick(60000, 1500000)
	// Types nobody has printed yet, printed with field names by many goroutines
	// released together from a barrier (per-type caches filled lazily are a classic
	// place for a race; the window is the very first use of the type).
	rounds := int(c.pick(150, 1500))
	w0 := &Worker{C: c, ID: 0, counts: map[string]int64{}}
	for round := 0; round < rounds; round++ {
		var fields []reflect.StructField
		for k := 0; k < 8; k++ {
			fields = append(fields, reflect.StructField{Name: fmt.Sprintf("F%d_%d_%d", c.Seed%1000, round, k), Type: reflect.TypeOf(0)})
		}
		v := reflect.New(reflect.StructOf(fields)).Elem().Interface()
		ref := map[string]string{"%+v": fmt.Sprintf("%+v", v), "%#v": fmt.Sprintf("%#v", v)}
		var gate atomic.Int32
		var wg sync.WaitGroup
		const G = 16
		got := make([]string, G)
		for g := 0; g < G; g++ {
			wg.Add(1)
			go func(g int) {
				defer wg.Done()
				f := []string{"%+v", "%#v"}[g%2]
				for gate.Load() == 0 {
				}
				got[g] = redact.Sprintf(f, v).StripMarkers()
			}(g)
		}
		gate.Store(1)
		wg.Wait()
		for g := 0; g < G; g++ {
			f := []string{"%+v", "%#v"}[g%2]
			w0.Eval(1)
			if got[g] != ref[f] {
				c.Violate("C12 fresh-type", "a struct type printed for the first time by several goroutines at once: "+q(got[g])+", fmt prints "+q(ref[f]), map[string]string{"format": f})
			}
		}
	}
	c.mu.Lock()
	c.res.Evaluations += w0.evals
	c.mu.Unlock()
	c.AddCount("fresh_struct_types_printed_concurrently", int64(rounds))
	for _, procs := range []int{16, 4} {
		prev := runtime.GOMAXPROCS(procs)
		c.ParallelFor(n/2, func(w *Worker, i int64) {
			r := newRng(c.Seed, 0xc12d, uint64(procs), uint64(i))
			c04check(w, randCall(r, o), i)
			if r.Chance(1, 8) {
				runtime.Gosched()
			}
			w.Count("concurrent_differential_calls", 1)
		})
		runtime.GOMAXPROCS(prev)
	}
}
