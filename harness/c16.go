package main

// C16 — all entry points agree on what a given argument list prints as.

import (
	"bytes"
	"errors"
	"strings"
	"unicode/utf8"

	"github.com/cockroachdb/redact"
)

func init() {
	register("C16", &monitor{
		run: runC16,
		rule: "random calls over the full value universe (structured formats, hostile raw formats, Print-style) and the C02 product leaves, each executed through Sprint(f), Fprint(f), StringBuilder.Print(f), SafePrinter.Print(f) inside Sprintfn and inside a SafeFormat method (also reached through a flagged directive), and through the last three again with surrounding writer state (safe text, open envelope, pending bytes before and after); " +
			"oracle: S and F byte-identical, the other routes canonically equal (delta against the reference model of the surrounding calls); writers that succeed, fail or write short see exactly one Write with the whole text and their (n, err) is returned; " +
			"non-trivial = the output has at least one envelope and one safe segment; distinct = distinct (format, operands)",
	})
}

// recWriter records Write calls and behaves as configured.
type recWriter struct {
	mode   int // 0 succeed, 1 fail, 2 short write, 3 short write without error
	writes [][]byte
}

var errWriter = errors.New("writer-failed")

func (w *recWriter) Write(b []byte) (int, error) {
	w.writes = append(w.writes, append([]byte(nil), b...))
	switch w.mode {
	case 1:
		return 0, errWriter
	case 2:
		return len(b) / 2, errWriter
	case 3:
		return len(b) / 2, nil
	}
	return len(b), nil
}

// recStringWriter also has a WriteString method (as *bytes.Buffer, *os.File and *bufio.Writer have, and as types embedding
// them inherit): the text is delivered "in a single Write", so WriteString must not be what receives it.
type recStringWriter struct {
	recWriter
	stringWrites int
}

func (w *recStringWriter) WriteString(s string) (int, error) {
	w.stringWrites++
	return len(s), nil
}

func c16check(w *Worker, call *Call, r *Rng, idx int64) {
	bc := newBuildCtx()
	bc.memo = map[*D]interface{}{}
	var args []interface{}
	built := false
	func() {
		defer func() { recover() }()
		args = call.operands(bc.real)
		built = true
	}()
	if !built {
		w.Count("operand_build_panicked", 1)
		return
	}
	format := call.format()
	cs := func(route string) func() interface{} {
		return func() interface{} { return map[string]interface{}{"call": call, "route": route} }
	}
	ref := runRedact(routeS, call.Sp, format, args)
	w.Eval(1)
	if ref.panicked {
		w.Count("reference_panicked", 1)
		return
	}
	cref := canon(ref.out)
	// F: identical bytes, single write, (n, err)
	for mode := 0; mode < 4; mode++ {
		bc.resetCounters()
		rw := &recWriter{mode: mode}
		var n int
		var err error
		pan := func() (p interface{}) {
			defer func() { p = recover() }()
			if call.Sp {
				n, err = redact.Fprint(rw, args...)
			} else {
				n, err = redact.Fprintf(rw, format, args...)
			}
			return nil
		}()
		w.Eval(1)
		if pan != nil {
			w.Violate("C16 F-panicked", "Fprint(f) panicked ("+pvalString(pan)+") where Sprint(f) did not: "+call.String(), cs("Fprint(f)")())
			return
		}
		if len(rw.writes) == 0 && ref.out == "" {
			// nothing to deliver: whether Write is called with an empty slice is not constrained
			if n != 0 || err != nil {
				w.Violate("C16 F-result", "Fprint(f) returned ("+itoa(n)+", "+sprint(err)+") without calling Write for "+call.String(), cs("Fprint(f)")())
			}
			continue
		}
		if len(rw.writes) != 1 {
			w.Violate("C16 write-count", "Fprint(f) performed "+itoa(len(rw.writes))+" Write calls (writer mode "+itoa(mode)+") for "+call.String(), cs("Fprint(f)")())
			return
		}
		if string(rw.writes[0]) != ref.out {
			w.Violate("C16 S-vs-F", "Fprint(f) wrote "+q(string(rw.writes[0]))+", Sprint(f) returned "+q(ref.out)+" for "+call.String(), cs("Fprint(f)")())
			return
		}
		wantN, wantErr := len(ref.out), error(nil)
		switch mode {
		case 1:
			wantN, wantErr = 0, errWriter
		case 2:
			wantN, wantErr = len(ref.out)/2, errWriter
		case 3:
			wantN = len(ref.out) / 2
		}
		if n != wantN || err != wantErr {
			w.Violate("C16 F-result", "Fprint(f) returned ("+itoa(n)+", "+sprint(err)+"), the writer returned ("+itoa(wantN)+", "+sprint(wantErr)+") for "+call.String(), cs("Fprint(f)")())
			return
		}
	}
	// a writer that also offers WriteString
	if ref.out != "" {
		bc.resetCounters()
		sw := &recStringWriter{}
		func() {
			defer func() { recover() }()
			if call.Sp {
				redact.Fprint(sw, args...)
			} else {
				redact.Fprintf(sw, format, args...)
			}
		}()
		w.Eval(1)
		if sw.stringWrites != 0 || len(sw.writes) != 1 {
			w.Violate("C16 write-count", "Fprint(f) to a writer that also has WriteString performed "+itoa(len(sw.writes))+" Write and "+itoa(sw.stringWrites)+" WriteString calls for "+call.String(), cs("Fprint(f)")())
			return
		}
	}
	// builder / nested routes, bare
	for _, route := range []int{routeBuilder, routeFn, routeSF} {
		bc.resetCounters()
		o := runRedact(route, call.Sp, format, args)
		w.Eval(1)
		if o.panicked {
			w.Violate("C16 route-panicked", routeNames[route]+" panicked ("+pvalString(o.pval)+") where Sprint(f) did not: "+call.String(), cs(routeNames[route])())
			return
		}
		if p := parse(o.out); !p.WellFormed {
			w.Violate("C16 ill-formed", routeNames[route]+" output "+q(o.out)+" for "+call.String(), cs(routeNames[route])())
			return
		}
		if got := canon(o.out); got != cref {
			w.Violate("C16 route-differs", routeNames[route]+" gives "+q(o.out)+" (canonical "+q(got)+"), Sprint(f) gives "+q(ref.out)+" (canonical "+q(cref)+") for "+call.String(), cs(routeNames[route])())
			return
		}
	}
	// the SafeFormat route again, with the method reached through a directive that carries flags, width and precision:
	// what the enclosing directive says is not the nested call's business
	{
		outerDir := []string{"%8.3v", "%+v", "%#v", "%-6x", "%010d", "% .1s", "%+#12.4q"}[int(uint64(idx)%7)]
		bc.resetCounters()
		var out string
		pan := func() (p interface{}) {
			defer func() { p = recover() }()
			out = string(redact.Sprintf(outerDir, fnFormatter(func(p redact.SafePrinter) {
				if call.Sp {
					p.Print(args...)
				} else {
					p.Printf(format, args...)
				}
			})))
			return nil
		}()
		w.Eval(1)
		name := "SafeFormat{Print(f)} reached through " + outerDir
		if pan != nil {
			w.Violate("C16 route-panicked", name+" panicked ("+pvalString(pan)+") where Sprint(f) did not: "+call.String(), cs(name)())
			return
		}
		if got := canon(out); got != cref {
			w.Violate("C16 route-differs", name+" gives "+q(out)+" (canonical "+q(got)+"), Sprint(f) gives "+q(ref.out)+" (canonical "+q(cref)+") for "+call.String(), cs(name)())
			return
		}
	}
	// with surrounding state: pre ops, the call, post ops
	if !utf8.ValidString(ref.out) {
		// A '?' is put after an ill-formed UTF-8 tail when the mode changes; whether
		// text ends "at a mode change" differs legitimately between a finished
		// string and the same text continued by a neighbouring call.
		w.Count("delta_skipped_invalid_utf8", 1)
		return
	}
	pre, post := validHistory(r, 3), validHistory(r, 3)
	want := canon(modelRaw(pre) + ref.out + modelRaw(post))
	for k, name := range []string{"StringBuilder", "Sprintfn", "SafeFormat"} {
		bc.resetCounters()
		var out string
		pan := func() (p interface{}) {
			defer func() { p = recover() }()
			body := func(t swTarget, pr interface {
				Print(...interface{})
				Printf(string, ...interface{})
			}) {
				for _, o := range pre {
					applyOp(t, o)
				}
				if call.Sp {
					pr.Print(args...)
				} else {
					pr.Printf(format, args...)
				}
				for _, o := range post {
					applyOp(t, o)
				}
			}
			switch k {
			case 0:
				var b redact.StringBuilder
				body(targetOf(&b), &b)
				out = string(b.RedactableString())
			case 1:
				out = string(redact.Sprintfn(func(p redact.SafePrinter) { body(targetOf(p), p) }))
			default:
				out = string(redact.Sprint(fnFormatter(func(p redact.SafePrinter) { body(targetOf(p), p) })))
			}
			return nil
		}()
		w.Eval(1)
		if pan != nil {
			w.Violate("C16 route-panicked", name+" with surrounding calls panicked ("+pvalString(pan)+"): "+call.String(), cs(name+"+state")())
			return
		}
		if p := parse(out); !p.WellFormed {
			w.Violate("C16 ill-formed", name+" with surrounding calls: "+q(out)+" pre="+historyString(pre)+" post="+historyString(post)+" for "+call.String(), cs(name+"+state")())
			return
		}
		if got := canon(out); got != want {
			w.Violate("C16 delta-differs", name+" with surrounding calls gives "+q(out)+" (canonical "+q(got)+"), expected "+q(want)+" pre="+historyString(pre)+" post="+historyString(post)+" for "+call.String(), cs(name+"+state")())
			return
		}
	}
	if p := parse(ref.out); len(p.Env) > 0 && strings.Trim(safeOnly(p), "\n") != "" {
		w.Nontrivial(hashStrs(format, sprint(call.Sp), argsKey(call)))
	}
	if idx%60013 == 3 {
		w.Sample(map[string]interface{}{"call": call.String(), "Sprint(f)_q": q(ref.out), "pre": historyString(pre), "post": historyString(post)})
	}
}

type fnFormatter func(p redact.SafePrinter)

func (f fnFormatter) SafeFormat(p redact.SafePrinter, _ rune) { f(p) }

// validHistory: a short history of valid-domain ops (the equalities of the model apply).
func validHistory(r *Rng, maxLen int) []Op {
	n := r.Intn(maxLen + 1)
	h := make([]Op, 0, n)
	for i := 0; i < n; i++ {
		h = append(h, randOp(r, i, 0))
	}
	return h
}

// modelRaw: the reference rendering of a history, not canonicalised (to be concatenated).
func modelRaw(h []Op) string {
	var b strings.Builder
	for _, o := range h {
		for _, p := range modelPieces(o) {
			switch p.kind {
			case 0:
				b.WriteString(esc(p.text))
			case 1:
				b.WriteString(wrapUnsafe(p.text))
			default:
				b.WriteString(p.text)
			}
		}
	}
	return b.String()
}

func runC16(c *Ctx) {
	registerStdTypes()
	o := fullOpts()
	// product leaves through a small directive set
	var calls []*Call
	for _, l := range productLeavesC02() {
		for _, d := range []Dir{{Verb: "v"}, {Verb: "v", Flags: "+"}, {Verb: "v", Flags: "#"}, {Verb: "s", Width: "7"}, {Verb: "d"}, {Verb: "x", Flags: "#"}, {Verb: "q"}, {Verb: "v", Width: "*", WArg: -9, Prec: ".3"}} {
			dd := d
			dd.Lit = "p" + startM
			calls = append(calls, &Call{Dirs: []Dir{dd}, Tail: "\n.", Args: []*D{l}})
		}
		calls = append(calls, &Call{Sp: true, Args: []*D{l, l}})
	}
	c.AddCount("product_calls", int64(len(calls)))
	c.ParallelFor(int64(len(calls)), func(w *Worker, i int64) {
		c16check(w, calls[i], newRng(c.Seed, 0xc16a, uint64(i)), i)
	})
	c16nestedDirectives(c)
	sc := scaleCalls()
	c.AddCount("scale_calls", int64(len(sc)))
	c.ParallelFor(int64(len(sc)), func(w *Worker, i int64) {
		c16check(w, sc[i], newRng(c.Seed, 0xc16b, uint64(i)), i)
	})
	n := c.pick(500000, 6000000)
	c.ParallelFor(n, func(w *Worker, i int64) {
		r := newRng(c.Seed, 0xc16, uint64(i))
		c16check(w, randCall(r, o), r, i)
		w.Count("random_calls", 1)
	})
	c.res.Assumptions = []string{"the reference model of the surrounding SafeWriter calls is the one of C09 (valid payloads only)"}
}

// c16nestedDirectives: what a SafeFormatter prints through its SafePrinter (nested Printf with %w, bad verbs, surplus
// operands, indexes) is the same whichever entry point reached it — HelperForErrorf included, whose %w bookkeeping
// concerns its own format only.
func c16nestedDirectives(c *Ctx) {
	c.Serial(func(w *Worker) {
		inner := errors.New("boom")
		top := errors.New("top")
		nested := []fnFormatter{
			func(p redact.SafePrinter) { p.Printf("cause: %w|%d", inner, 1) },
			func(p redact.SafePrinter) { p.Printf("%w", inner) },
			func(p redact.SafePrinter) { p.Printf("%w %w", inner, top) },
			func(p redact.SafePrinter) { p.Printf("%[2]w %[1]v", 1, inner) },
			func(p redact.SafePrinter) { p.Printf("%w", "not an error") },
			func(p redact.SafePrinter) { p.Print(inner, 2); p.Printf("%!|%z|%d", 3) },
			func(p redact.SafePrinter) { p.Printf("%v", fnFormatter(func(q redact.SafePrinter) { q.Printf("deep %w", inner) })) },
		}
		for ni, sf := range nested {
			for _, f := range []string{"%v", "%s", "x %v: %w", "%w then %v", "%+v|%d", "%[2]v"} {
				var args []interface{}
				switch f {
				case "x %v: %w":
					args = []interface{}{sf, top}
				case "%w then %v":
					args = []interface{}{top, sf}
				case "%+v|%d":
					args = []interface{}{sf, 5}
				case "%[2]v":
					args = []interface{}{0, sf}
				default:
					args = []interface{}{sf}
				}
				hasW := strings.Contains(f, "%w")
				res := map[string]string{}
				run := func(name string, fn func() string) {
					defer func() {
						if r := recover(); r != nil {
							res[name] = "PANIC: " + pvalString(r)
						}
					}()
					res[name] = fn()
				}
				run("Sprintf", func() string { return string(redact.Sprintf(f, args...)) })
				run("Fprintf", func() string { var b bytes.Buffer; _, _ = redact.Fprintf(&b, f, args...); return b.String() })
				run("StringBuilder.Printf", func() string { var sb redact.StringBuilder; sb.Printf(f, args...); return string(sb.RedactableString()) })
				run("Sprintfn", func() string { return string(redact.Sprintfn(func(p redact.SafePrinter) { p.Printf(f, args...) })) })
				run("nested Printf", func() string {
					return string(redact.Sprint(fnFormatter(func(p redact.SafePrinter) { p.Printf(f, args...) })))
				})
				w.Eval(5)
				w.Nontrivial(hashStrs("c16nested", itoa(ni), f))
				ref := res["Sprintf"]
				for name, got := range res {
					if got != ref {
						w.Violate("C16 nested-directives", "format "+q(f)+" with a SafeFormatter (variant "+itoa(ni)+") that prints through its own Printf: "+name+" = "+q(got)+", Sprintf = "+q(ref),
							map[string]interface{}{"format": f, "nested_variant": ni, "route": name})
					}
				}
				// HelperForErrorf: identical to Sprintf when its own format has no %w; with a %w of its own, the text of the nested part is still the same
				var he string
				run("HelperForErrorf", func() string { s, _ := redact.HelperForErrorf(f, args...); return string(s) })
				he = res["HelperForErrorf"]
				w.Eval(1)
				if !hasW {
					if he != ref {
						w.Violate("C16 nested-directives", "format "+q(f)+" (no %w of its own) with a SafeFormatter (variant "+itoa(ni)+") that prints through its own Printf: HelperForErrorf = "+q(he)+", Sprintf = "+q(ref),
							map[string]interface{}{"format": f, "nested_variant": ni, "route": "HelperForErrorf"})
					}
				} else {
					// the nested rendering, taken from a plain Sprint of the formatter, must occur in the HelperForErrorf text
					part := string(redact.Sprint(sf))
					if !strings.Contains(canon(he), strings.Trim(canon(part), startM+endM)) && !strings.Contains(he, part) {
						w.Violate("C16 nested-directives", "format "+q(f)+": HelperForErrorf = "+q(he)+" does not contain the formatter's rendering "+q(part)+" that every other entry point prints",
							map[string]interface{}{"format": f, "nested_variant": ni, "route": "HelperForErrorf"})
					}
				}
			}
		}
	})
}
