package main

// C04 — with markers stripped, output equals what fmt prints.

import (
	"reflect"
	"strings"
	"unicode/utf8"

	"github.com/cockroachdb/redact"
)

func init() {
	register("C04", &monitor{
		run: runC04,
		rule: "differential against go1.23.5 fmt on the same call: (1) full product leaf kind x 2 values x 58 verbs x 12 flag sets x 18 width/precision forms (incl. widths and precisions around the 68-byte scratch buffer), " +
			"(2) random calls (structured formats, hostile raw formats, Sprint) over the fmt-compatible universe (containers, pointers, nil, reflect.Value, Stringer/error/Formatter/GoStringer incl. panicking and nil-receiver ones, SafeValue and registered types) through Sprint/Sprintf/Fprint/Fprintf; " +
			"oracle: StripMarkers(redact) == esc(fmt) and both panic or neither; non-trivial = the output contains an envelope or a diagnostic (%!); distinct = distinct (format, operands)",
	})
}

func c04opts() genOpts {
	return genOpts{invalidUTF8: false, redactKinds: false, panics: true, safeKinds: true, addrs: true, starKinds: true, maxDepth: 3}
}

// productLeaves: for each leaf kind two descriptors (a zero-ish and a rich one).
func productLeaves(o genOpts, withSafeKinds bool) []*D {
	var out []*D
	rich := "a" + startM + "b\n" + endM + "é"
	for _, k := range scalarKinds {
		switch k {
		case "nil":
			out = append(out, &D{K: k})
		case "bool", "NBool":
			out = append(out, dN(k, 0), dN(k, 1))
		case "float32", "float64", "NFloat":
			out = append(out, &D{K: k, F: 0}, &D{K: k, F: -1234.5678}, &D{K: k, S: "NaN"}, &D{K: k, S: "-Inf"}, &D{K: k, S: "-0"})
		case "complex64", "complex128":
			out = append(out, &D{K: k, F: 0, N: 0}, &D{K: k, F: 1.5, N: -2}, &D{K: k, S: "NaN", N: 3}, &D{K: k, S: "+Inf", N: 0}, &D{K: k, F: 1, N: 9001}, &D{K: k, F: -2.5, N: 9003}, &D{K: k, S: "-0", N: 9004})
		case "string", "NStr", "bytes", "NBytes", "barr", "barr8", "nbarr", "nbslice", "SNArr", "TagStruct", "TagNilPtr", "TagNilChan", "TagMap":
			out = append(out, dS(k, ""), dS(k, rich))
			if k == "barr8" {
				out = append(out, dS(k, "hé☺x"))
			}
		default:
			out = append(out, dN(k, 0), dN(k, -48879), dN(k, 0x2039))
		}
	}
	for _, k := range pointerKinds {
		out = append(out, &D{K: k, N: 5, S: QS(rich)})
	}
	for _, k := range addrKinds {
		out = append(out, &D{K: k})
	}
	for _, k := range methodKinds {
		out = append(out, &D{K: k, S: QS(rich)})
	}
	for _, k := range panicKinds {
		out = append(out, &D{K: k, S: QS(rich), N: 0}, &D{K: k, S: QS(rich), N: 4}, &D{K: k, S: QS(rich), N: 6}, &D{K: k, S: QS(rich), N: 7}, &D{K: k, S: QS(rich), N: 8}, &D{K: k, S: QS(rich), N: 9})
	}
	if withSafeKinds {
		for _, k := range safeKinds {
			out = append(out, &D{K: k, S: QS(rich), N: 0x2039, F: 2.5})
		}
	}
	out = append(out,
		dSub("slice", dN("int", 1), dS("string", rich), &D{K: "nil"}),
		dSub("S2", dN("int", 1), dS("Stringer", rich)),
		&D{K: "STyped", N: 6, S: QS(rich), F: 1.5},
		&D{K: "SUnexp", N: 6, S: QS(rich), Sub: []*D{dS("Err", rich)}},
		dSub("ptr", dSub("S2", dN("int", 1), dS("string", rich))),
		&D{K: "map", Sub: []*D{dS("string", "k\n"), dN("int", 2), dS("string", startM), dS("Stringer", rich)}},
		&D{K: "bytess", Sub: []*D{dS("string", rich), dS("string", "")}},
		dSub("RValue", dS("Stringer", rich)),
		&D{K: "RValueZero"},
		&D{K: "RValueField", N: 1, S: QS(rich)},
		dSub("RVIdx", dSub("ptr", dSub("S2", dN("int", 1), dS("string", rich)))),
		dSub("RVIdx", dS("Stringer", rich)),
		dSub("RVIdx", &D{K: "nil"}),
		dSub("RVFieldI", dSub("ptr", dSub("S2", dN("int", 1), dS("string", rich)))),
		dSub("RVFieldI", dS("Err", rich)),
		dSub("RVFieldI", &D{K: "nil"}),
		&D{K: "RVFieldT", N: 2, S: QS(rich)},
		&D{K: "RVFieldT", N: 3 + 7*8, S: QS(rich)},
		&D{K: "RVFieldT", N: 5, S: QS(rich)},
		&D{K: "RVFieldT", N: 6 + 7*8, S: QS(rich)},
	)
	return out
}

var productFlags = []string{"", "+", "-", "#", " ", "0", "+#", "-#", "# ", "+0", "#0", "+-# "}
var productWP = []struct {
	w, p   string
	wa, pa int
}{{"", "", 0, 0}, {"6", "", 0, 0}, {"12", "", 0, 0}, {"*", "", 7, 0}, {"*", "", -7, 0}, {"", ".", 0, 0}, {"", ".0", 0, 0}, {"", ".2", 0, 0}, {"", ".*", 0, 3},
	{"9", ".3", 0, 0}, {"*", ".*", 8, 1}, {"2", ".9", 0, 0}, {"20000001", "", 0, 0},
	{"67", "", 0, 0}, {"69", "", 0, 0}, {"", ".67", 0, 0}, {"*", ".*", 40, 30}, {"130", ".100", 0, 0}}

func productCalls(leaves []*D) []*Call {
	var calls []*Call
	for _, l := range leaves {
		for _, v := range allVerbs {
			for _, f := range productFlags {
				for _, wp := range productWP {
					calls = append(calls, &Call{Dirs: []Dir{{Flags: f, Width: wp.w, Prec: wp.p, Verb: v, WArg: wp.wa, PArg: wp.pa}}, Args: []*D{l}})
				}
			}
		}
	}
	return calls
}

func registerC04Types() {
	redact.RegisterSafeType(reflect.TypeOf(tRegInt(0)))
	redact.RegisterSafeType(reflect.TypeOf(tRegDur(0)))
}

func c04check(w *Worker, c *Call, idx int64) {
	format := c.format()
	if !c.Sp && (hasVerbW(format) || hasZeroMinus(format)) {
		w.Count("excluded_directive(w,0-)", 1)
		return
	}
	bc := newBuildCtx()
	fprint := idx%2 == 1
	// The operands are built once and shared by both sides (addresses are
	// printed); stateful payloads are reset in between.
	args := c.operands(bc.real)
	fo := runFmt(fprint, c.Sp, format, args)
	bc.resetCounters()
	rargs := args
	route := routeS
	if fprint {
		route = routeF
	}
	ro := runRedact(route, c.Sp, format, rargs)
	w.Eval(1)
	cs := func() interface{} { return map[string]interface{}{"call": c, "route": routeNames[route]} }
	if fo.panicked != ro.panicked {
		w.Violate("C04 panic-mismatch", "fmt panicked="+sprint(fo.panicked)+" ("+pvalString(fo.pval)+"), redact panicked="+sprint(ro.panicked)+" ("+pvalString(ro.pval)+") for "+c.String(), cs())
		return
	}
	if fo.panicked {
		w.Count("both_panicked", 1)
		return
	}
	if !utf8.ValidString(fo.out) {
		w.Count("fmt_output_invalid_utf8_skipped", 1)
		return
	}
	got := redact.RedactableString(ro.out).StripMarkers()
	want := esc(fo.out)
	if got != want && len(got)+len(want) > 200000 {
		i := 0
		for i < len(got) && i < len(want) && got[i] == want[i] {
			i++
		}
		w.Violate("C04 text", "outputs of "+itoa(len(got))+" (redact, stripped) and "+itoa(len(want))+" (fmt) bytes differ from byte "+itoa(i)+" on: redact "+q(clip(got[i:], 60))+" fmt "+q(clip(want[i:], 60))+" for "+c.String()+" via "+routeNames[route], cs())
		return
	}
	if got != want {
		w.Violate("C04 text", "StripMarkers(redact)="+q(got)+" esc(fmt)="+q(want)+" redact raw="+q(ro.out)+" for "+c.String()+" via "+routeNames[route], cs())
		return
	}
	if fprint && (ro.n != len(ro.out) || ro.err != nil) {
		w.Violate("C04 fprint-result", "Fprint returned n="+itoa(ro.n)+" err="+sprint(ro.err)+" for "+itoa(len(ro.out))+" bytes", cs())
	}
	if hasMarker(ro.out) || containsBang(fo.out) {
		w.Nontrivial(hashStrs(format, sprint(c.Sp), argsKey(c)))
	}
	if containsBang(fo.out) {
		w.Count("diagnostics_seen", 1)
	}
	if idx%100003 == 9 {
		w.Sample(map[string]interface{}{"call": c.String(), "redact_q": q(ro.out), "fmt_q": q(fo.out)})
	}
}

func containsBang(s string) bool {
	for i := 0; i+1 < len(s); i++ {
		if s[i] == '%' && s[i+1] == '!' {
			return true
		}
	}
	return false
}

func argsKey(c *Call) string {
	s := ""
	for _, a := range c.Args {
		s += a.String()
	}
	return s
}

func runC04(c *Ctx) {
	registerC04Types()
	o := c04opts()
	calls := productCalls(productLeaves(o, true))
	c.AddCount("product_calls", int64(len(calls)))
	c.ParallelFor(int64(len(calls)), func(w *Worker, i int64) { c04check(w, calls[i], i) })
	// literal and '*' widths and precisions at the limits the format parser accepts (megabyte-sized outputs: a fixed handful)
	th := append(thresholdCalls(), scaleCalls()...)
	c.AddCount("threshold_calls", int64(len(th)))
	c.ParallelFor(int64(len(th)), func(w *Worker, i int64) { c04check(w, th[i], i) })
	n := c.pick(3000000, 40000000)
	c.ParallelFor(n, func(w *Worker, i int64) {
		r := newRng(c.Seed, 0xc04, uint64(i))
		c04check(w, randCall(r, o), i)
		w.Count("random_calls", 1)
	})
	c.res.Assumptions = []string{"go1.23.5 fmt is the reference", "excluded per the statement: %w, '0' combined with '-' (or with a '*' width), cases in which fmt's own output is not valid UTF-8"}
	c.Extra("registered_safe_types", redact.VerifSafeTypeCount())
}

// thresholdCalls: corners of the format parser, and numbers in the format at and beyond the parser's limit (fmt accepts a literal number as long as the
// value accumulated *before* its last digit is at most 1e6, and a '*' operand up to 1e6 in magnitude).
func thresholdCalls() []*Call {
	var out []*Call
	for _, f := range []string{"a%1000000d|tail %d.", "a%1000001d|tail %d.", "a%999999d|tail %d.", "a%.1000001d|tail %d.", "a%2000000v|tail %d.", "a%10000009x|tail %d.",
		"a%10000010d|tail %d.", "a%-1000001s|tail %d.", "a%[1]*[2]d|tail %d.", "a%01000003d|tail %d.", "a%1000001.1000001d|tail %d."} {
		args := []*D{dN("int", 7), dN("int", 8)}
		if strings.Contains(f, "[1]*") {
			args = []*D{dN("int", 1000000), dN("int", 8), dN("int", 9)}
		}
		if strings.Contains(f, "s|") {
			args = []*D{dS("string", "x"+startM), dN("int", 8)}
		}
		out = append(out, &Call{Raw: QS(f), Args: args})
	}
	// corners of the format parser that structured generators do not spell: two argument indexes back to back, digits
	// followed by other characters inside an index, a lone continuation or invalid byte as the verb, a '%' at the end
	// after flags/width, an index after a precision dot, star forms combined with indexes
	for _, f := range []string{"%[3][1]d|", "%.[7][1]d|", "%5.[7][1]d|", "%[1][2]d|", "%[2][1]d|%d|", "%[1x]d|", "%[2 ]s|%s|", "%[x1]d|", "%[1 ]d|", "%[ 1]d|", "%[1]]d|", "%[[1]d|",
		"%\x80|", "%\x81|", "%\xbf|", "%\xc0|", "%\xff|", "%\xe2\x80|", "%+\x80|%d", "%5\x80|", "%[1]\x80|", "%.3\x80|", "%\u0080|", "%\x7f|",
		"%[1]*[2]*[3]d|", "%[3]*.[2]*[1]d|", "%[1]*.[1]*[1]d|", "%.*[1]d|", "%*[2]d|", "%[2]*[1]d|", "%[1]*d|%d", "%-[1]d|", "%[1]-d|", "%+[2]d|%[1]d|", "%#[1]x %#[2]x|",
		"%", "%+", "%5", "%5.", "%5.3", "%[1]", "%[", "%[1", "%.", "%.*", "%*", "x%", "%%%", "%!", "%!d|", "%.0d|%.d|%.-1d|", "%--5d|", "%++d|", "%  d|", "%00005d|", "%+-05d|", "%#+- 0d|"} {
		out = append(out, &Call{Raw: QS(f), Args: []*D{dN("int", 7), dN("int", 3), dN("int", 9)}},
			&Call{Raw: QS(f), Args: []*D{dS("string", "a"), dS("string", "b")}},
			&Call{Raw: QS(f), Args: nil})
	}
	// widths and precisions between the everyday ones and the parser's limit, around powers of two: padding written in
	// blocks, scratch buffers sized in kilobytes; every flag set x a verb/operand pair for each padding routine
	for _, n := range []string{"255", "256", "257", "1023", "1024", "1025", "1500", "2047", "2048", "2049", "4096", "4097", "8193", "10000", "65537"} {
		for _, fl := range []string{"", "0", "-", "+0", "#0", " ", "+"} {
			for _, vo := range []struct {
				verb string
				arg  *D
			}{{"s", dS("string", "abc")}, {"q", dS("string", "a"+startM)}, {"v", dN("bool", 1)}, {"t", dN("bool", 0)}, {"f", &D{K: "float64", F: 2.5}}, {"e", &D{K: "float64", F: -1e10}},
				{"g", &D{K: "float64", F: 0.1}}, {"v", &D{K: "float64", F: 3}}, {"v", &D{K: "complex128", F: 1.5}}, {"d", dN("int", -42)}, {"x", dN("int", 255)}, {"x", dS("string", "hi")},
				{"c", dN("int32", 0x4e16)}, {"U", dN("int", 0x41)}, {"v", dS("bytes", "ab")}, {"v", dN("nil", 0)}, {"d", dS("string", "bad")}, {"b", dN("uint64", 5)}, {"o", dN("int", 8)}} {
				out = append(out, &Call{Raw: QS("a%" + fl + n + vo.verb + "|tail %d."), Args: []*D{vo.arg, dN("int", 8)}})
				if n == "1024" || n == "1500" || n == "4097" {
					out = append(out, &Call{Raw: QS("a%" + fl + "." + n + vo.verb + "|tail %d."), Args: []*D{vo.arg, dN("int", 8)}},
						&Call{Raw: QS("a%" + fl + "2000." + n + vo.verb + "|tail %d."), Args: []*D{vo.arg, dN("int", 8)}})
				}
			}
		}
	}
	for _, wt := range []string{"1e6", "1e6+1", "-1e6-1"} {
		out = append(out, &Call{Dirs: []Dir{{Lit: "w", Width: "*", WT: wt, Verb: "d"}, {Lit: "|", Verb: "v"}}, Tail: ".", Args: []*D{dN("int", 7), dS("string", "t")}},
			&Call{Dirs: []Dir{{Lit: "p", Prec: ".*", PT: wt, Verb: "d"}, {Lit: "|", Verb: "v"}}, Tail: ".", Args: []*D{dN("int", 7), dS("string", "t")}})
	}
	return out
}

func clip(s string, n int) string {
	if len(s) > n {
		return s[:n]
	}
	return s
}

// scaleCalls: sizes between everyday use and the limits — many directives, many operands, argument indexes beyond 9,
// deep nesting, long containers, big maps, long strings (batching, fixed-size tables and scratch space, 8- and 16-bit
// counters, recursion guards). A fixed list; the oracle is the same differential as everywhere in C04.
func scaleCalls() []*Call {
	var out []*Call
	mixed := func(i int) *D {
		switch i % 5 {
		case 0:
			return dN("int", int64(i))
		case 1:
			return dS("string", "s"+itoa(i))
		case 2:
			return &D{K: "float64", F: float64(i) + 0.5}
		case 3:
			return dS("string", startM+"x")
		}
		return dN("bool", int64(i%2))
	}
	for _, n := range []int{10, 33, 64, 65, 100, 256, 257, 1000, 5000} {
		var f1, f2 strings.Builder
		var args, ints, strs, alt []*D
		for i := 0; i < n; i++ {
			f1.WriteString("%v|")
			f2.WriteString([]string{"%d,", "%5s;", "%-8.2f ", "%q", "%t"}[i%5])
			args = append(args, mixed(i))
			ints = append(ints, dN("int", int64(i)))
			strs = append(strs, dS("string", "s"+itoa(i)))
			if i%3 == 0 {
				alt = append(alt, dS("string", "a"))
			} else {
				alt = append(alt, dN("int", int64(i)))
			}
		}
		out = append(out, &Call{Raw: QS(f1.String()), Args: args}, &Call{Raw: QS(f2.String()), Args: args},
			&Call{Sp: true, Args: args}, &Call{Sp: true, Args: ints}, &Call{Sp: true, Args: strs}, &Call{Sp: true, Args: alt},
			// surplus and missing operands at scale
			&Call{Raw: QS(f1.String()), Args: args[:n/2]}, &Call{Raw: QS("%v|%v"), Args: args},
			// explicit indexes far beyond 9
			&Call{Raw: QS("%[" + itoa(n) + "]v|%[1]v|%[" + itoa(n-1) + "]v %v|%v|%[" + itoa(n+1) + "]v|%[" + itoa(n/2+1) + "]*v"), Args: ints},
			// long containers
			&Call{Raw: QS("%v|%d|%05x|%+v|%#v"), Args: []*D{dSub("ints", ints...), dSub("ints", ints...), dSub("ints", ints...), dSub("strs", strs...), dSub("slice", args...)}},
			&Call{Raw: QS("%v|%q|%x|%6.2v"), Args: []*D{dSub("slice", args...), dSub("strs", strs...), dSub("strs", strs...), dSub("slice", args...)}})
		// maps with n keys (sorted output), string and int keys
		var mk, ik []*D
		for i := 0; i < n; i++ {
			mk = append(mk, dS("string", "k"+itoa((i*7919)%n)), mixed(i))
			ik = append(ik, dN("int", int64((i*7919)%n-n/2)), dS("string", "v"+itoa(i)))
		}
		out = append(out, &Call{Raw: QS("%v|%+v|%#v"), Args: []*D{dSub("map", mk...), dSub("imap", ik...), dSub("map", mk...)}})
	}
	// nesting depth
	for _, depth := range []int{5, 9, 12, 17, 33, 65, 129, 300} {
		for _, leaf := range []*D{dN("int", 7), dS("string", "deep"+startM), dSub("map", dS("string", "k"), dS("string", "v"))} {
			d := leaf
			for i := 0; i < depth; i++ {
				if i%3 == 2 {
					d = dSub("map", dS("string", "k"+itoa(i)), d)
				} else {
					d = dSub("slice", dN("int", int64(i)), d)
				}
			}
			out = append(out, &Call{Raw: QS("%v|%+v|%#v|%x|%5v|%q"), Args: []*D{d, d, d, d, d, d}}, &Call{Sp: true, Args: []*D{d, dS("string", "t"), d}})
		}
	}
	// long strings and byte slices
	for _, n := range []int{1000, 4096, 65535, 65536, 70001, 300000} {
		str := strings.Repeat("ab"+startM+"c\nd"+endM+"é ", n/12+1)[:n]
		for len(str) > 0 && !utf8.ValidString(str) {
			str = str[:len(str)-1]
		}
		for _, f := range []string{"%s|", "%q|", "%x|", "% X|", "%.5s|", "%." + itoa(n-3) + "s|", "%" + itoa(n+10) + "s|", "%-" + itoa(n+10) + "q|", "%v|", "%#v|", "%+q|", "%d|"} {
			out = append(out, &Call{Raw: QS("a" + f + "tail %d."), Args: []*D{dS("string", str), dN("int", 8)}},
				&Call{Raw: QS("a" + f + "tail %d."), Args: []*D{dS("bytes", str), dN("int", 8)}})
		}
	}
	return out
}
