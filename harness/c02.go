package main

// C02 — redacted output is independent of unsafe data (non-interference).
// Two-run monitor: the same call with two instantiations of the unsafe leaves.

import (
	"fmt"
	"reflect"
	"strings"

	"github.com/cockroachdb/redact"
)

func init() {
	register("C02", &monitor{
		run: runC02,
		rule: "pairs of runs of one call whose operands differ only in the content of the leaves not declared safe (shape-preserving re-instantiation: same types, lengths of byte slices, nil-ness, emptiness/zero-ness, line-feed skeleton, map-key order; star operands, literals and everything declared safe shared): " +
			"(1) full product leaf kind x values x 58 verbs x 12 flag sets x 18 width/precision forms, (2) random calls over the full universe through all routes; oracle: Redact() of the two outputs byte-identical, same panic behaviour; " +
			"non-trivial = the two raw outputs differ before redaction; distinct = distinct (format, operands) pairs",
	})
}

// mutBytes changes the content of s keeping its length, its line feeds and
// (keys: strictly monotone on the bytes used) the relative order of strings.
func mutBytes(s string, key bool) string {
	b := []byte(s)
	for i := 0; i < len(b); i++ {
		c := b[i]
		if tok(s, i) != 0 {
			// a marker stays a marker: its escaped length (1 byte) would
			// otherwise change the length of buffers that hold escaped text
			i += 2
			continue
		}
		switch {
		case c == '\n':
		case c >= 'a' && c <= 'y', c >= 'A' && c <= 'Y':
			b[i] = c + 1
		case key:
		case c == 'z':
			b[i] = 'a'
		case c == 'Z':
			b[i] = 'A'
		case c >= '0' && c <= '8':
			b[i] = c + 1
		case c == '9':
			b[i] = '0'
		case c >= 0x80 && c < 0xbf:
			b[i] = c + 1
		case c == ' ':
			b[i] = '_'
		case c == '\r':
			b[i] = '\f' // control characters other than the line feed are content like any other
		case c == '\f':
			b[i] = '\r'
		case c == 0x7f:
			b[i] = 0x1b
		case c == 0x1b:
			b[i] = 0x7f
		}
	}
	return string(b)
}

func mutInt(kind string, n int64, masks []int64) int64 {
	conv := func(x int64) int64 {
		switch kind {
		case "int8":
			return int64(int8(x))
		case "int16":
			return int64(int16(x))
		case "int32":
			return int64(int32(x))
		case "uint8", "NUint8":
			return int64(uint8(x))
		case "uint16":
			return int64(uint16(x))
		case "uint32":
			return int64(uint32(x))
		}
		return x
	}
	v := conv(n)
	if v == 0 || v == 10 {
		return n // zero-ness is public (%.0d); 10 is a line feed under %c
	}
	for _, m := range masks {
		if w := conv(n ^ m); w != 0 && w != 10 && (w < 0) == (v < 0) {
			return n ^ m
		}
	}
	return n
}

var stdMasks = []int64{5, 6, 3, 12}
var evenMasks = []int64{6, 12, 24}

func mutFloat(f float64) float64 {
	if f == 0 {
		return 0
	}
	g := f*1.5 + 1
	if g == 0 || (g < 0) != (f < 0) {
		g = f * 3
	}
	return g
}

type mutator struct {
	registered map[string]bool
	rawFormat  bool // top-level ints may be consumed as '*' operands: public
}

func (m *mutator) isSafeKind(k string) bool {
	bc := buildCtx{registered: m.registered}
	return bc.isSafeKind(k)
}

// mutate returns a copy of d in which every leaf that is not declared safe
// (in classification context ctx) has different content of the same shape.
func (m *mutator) mutate(d *D, ctx int, top bool) *D {
	if ctx == ctxSafe || (ctx == ctxNone && (m.isSafeKind(d.K) || d.K == "SafeMsg")) {
		// Entirely public: the very same node is shared by both instantiations
		// (and, through the build memo, the very same Go value: addresses
		// printed from public values must not differ between the two runs).
		return d
	}
	c := *d
	c.Sub = nil
	subs := func(cx int) {
		for _, s := range d.Sub {
			c.Sub = append(c.Sub, m.mutate(s, cx, false))
		}
	}
	switch d.K {
	case "Safe":
		if ctx == ctxNone {
			subs(ctxSafe)
		} else {
			subs(ctx)
		}
		return &c
	case "Unsafe":
		if ctx == ctxNone {
			subs(ctxUnsafe)
		} else {
			subs(ctx)
		}
		return &c
	case "Builder", "PBuilder":
		// The length of a builder's internal buffer is a container length
		// (visible when the builder is printed structurally under a bad verb):
		// content of different rendered length would be a different shape.
		return d
	case "RS", "RB":
		// produced by an independent print call: its own classification applies
		subs(ctxNone)
		return &c
	case "SafeFmt", "SafeFmtErr":
		for _, st := range d.Sub {
			c.Sub = append(c.Sub, m.mutateStep(st, ctx))
		}
		return &c
	case "map":
		for i := 0; i+1 < len(d.Sub); i += 2 {
			k := *d.Sub[i]
			if ctx != ctxSafe {
				k.S = QS(mutBytes(string(k.S), true))
			}
			c.Sub = append(c.Sub, &k, m.mutate(d.Sub[i+1], ctx, false))
		}
		return &c
	case "imap":
		for i := 0; i+1 < len(d.Sub); i += 2 {
			k := *d.Sub[i]
			if ctx != ctxSafe {
				k.N *= 5 // monotone, keeps zero
			}
			c.Sub = append(c.Sub, &k, m.mutate(d.Sub[i+1], ctx, false))
		}
		return &c
	case "kmap":
		// keys of mixed kinds: their relative order is public, so they are shared
		for i := 0; i+1 < len(d.Sub); i += 2 {
			c.Sub = append(c.Sub, d.Sub[i], m.mutate(d.Sub[i+1], ctx, false))
		}
		return &c
	case "fmap", "amap", "bmap", "cmap":
		return d // key order of float/array keys: not re-instantiated
	case "mapIntStr":
		for i := 0; i+1 < len(d.Sub); i += 2 {
			k, v := *d.Sub[i], *d.Sub[i+1]
			if ctx != ctxSafe {
				k.N *= 5
				v.S = QS(mutBytes(string(v.S), false))
			}
			c.Sub = append(c.Sub, &k, &v)
		}
		return &c
	}
	if len(d.Sub) > 0 {
		cx := ctx
		if ctx == ctxNone && m.isSafeKind(d.K) {
			cx = ctxSafe
		}
		subs(cx)
	}
	secret := ctx == ctxUnsafe || (ctx == ctxNone && !m.isSafeKind(d.K) && d.K != "SafeMsg")
	if !secret {
		return &c
	}
	if top && m.rawFormat && intOfKind(d.K, 0) != nil {
		return d // may be consumed as a '*' operand, which is public
	}
	switch d.K {
	case "bool", "NBool":
		c.N = 1 - d.N
	case "float32", "float64", "NFloat", "SVFloat", "ISafeFloat":
		if d.S == "" {
			c.F = mutFloat(d.F)
		}
	case "complex64", "complex128":
		if d.S == "" {
			c.F = mutFloat(d.F)
		}
		if d.N != 0 && d.N < 9000 {
			c.N = d.N * 2
		}
	case "STyped":
		c.N = mutInt("int", d.N, evenMasks)
		c.S = QS(mutBytes(string(d.S), false))
		c.F = mutFloat(d.F)
	case "FmtFlags", "nil", "nilPtrInt", "nilMap", "nilSlice", "nilChan", "nilFunc", "chan", "func", "uptr", "NilPStringer", "NilPErr", "RValueZero", "SNils", "NFunc", "NChan":
	case "RValueField":
		c.S = QS(mutBytes(string(d.S), false))
		c.N = mutInt("int", d.N, evenMasks)
	case "RVFieldT":
		switch rvFieldTIndex(d) {
		case 2, 3, 4, 6:
			return d // registered / SafeValue types: not re-instantiated
		}
		c.S = QS(mutBytes(string(d.S), false))
	case "SArr":
		c.N = mutInt("int", d.N, stdMasks)
		c.S = QS(mutBytes(string(d.S), false))
	case "iarr", "ptrptr":
		c.N = mutInt("int", d.N, stdMasks)
	case "SUnexp":
		c.N = mutInt("int", d.N, stdMasks)
		c.S = QS(mutBytes(string(d.S), false))
	case "RegStruct":
		c.N = mutInt("int", d.N, stdMasks)
	case "PanicStringer", "PanicErr", "PanicGoStr", "PanicFmter":
		c.S = QS(mutBytes(string(d.S), false))
	case "ISafeRune", "ISafeByte":
		// only reached under Unsafe
		c.N = mutInt("uint8", d.N, stdMasks)
	default:
		if intOfKind(d.K, 0) != nil || d.K == "ptrInt" || d.K == "SVInt" || d.K == "ISafeInt" || d.K == "ISafeUint" || d.K == "RegInt" || d.K == "RegDur" {
			c.N = mutInt(d.K, d.N, stdMasks)
		} else {
			c.S = QS(mutBytes(string(d.S), false))
		}
	}
	return &c
}

func (m *mutator) mutateStep(st *D, ctx int) *D {
	c := *st
	c.Sub = nil
	switch st.K {
	case "sPrint", "sPrintf":
		for _, s := range st.Sub {
			c.Sub = append(c.Sub, m.mutate(s, ctx, false))
		}
		return &c
	case "sUnsafeString", "sUnsafeBytes", "sWrite", "sWriteString":
		if ctx != ctxSafe {
			c.S = QS(mutBytes(string(st.S), false))
		}
	case "sUnsafeRune":
		if ctx != ctxSafe && st.N != '\n' {
			c.N = st.N + 1
			if c.N == '\n' {
				c.N++
			}
		}
	case "sUnsafeByte":
		if ctx != ctxSafe && st.N != '\n' {
			c.N = (st.N + 1) & 0x7f
			if c.N == '\n' {
				c.N++
			}
		}
	case "sPanic":
		c.S = QS(mutBytes(string(st.S), false))
	default:
		// safe steps: public unless under Unsafe (where the method is not called at all)
	}
	return &c
}

func c02check(w *Worker, m *mutator, call *Call, route int, idx int64) {
	m.rawFormat = call.Raw != ""
	callB := *call
	callB.Args = nil
	for _, a := range call.Args {
		callB.Args = append(callB.Args, m.mutate(a, ctxNone, true))
	}
	bc := newBuildCtx()
	bc.memo = map[*D]interface{}{}
	oa, builtA := runCallWith(bc, route, call)
	bc.resetCounters()
	ob, builtB := runCallWith(bc, route, &callB)
	w.Eval(2)
	cs := func() interface{} {
		return map[string]interface{}{"call_A": call, "call_B": &callB, "route": routeNames[route]}
	}
	if builtA != builtB || oa.panicked != ob.panicked {
		w.Violate("C02 panic-divergence", "instantiation A panicked="+sprint(oa.panicked)+" ("+pvalString(oa.pval)+"), B panicked="+sprint(ob.panicked)+" ("+pvalString(ob.pval)+") for "+call.String(), cs())
		return
	}
	if oa.panicked {
		w.Count("both_panicked", 1)
		return
	}
	if strings.Count(oa.out, "\n") != strings.Count(ob.out, "\n") {
		// The rendering itself moved a line feed (truncation inside an invalid
		// sequence, %c of a value that became 10...): outside the side conditions.
		w.Count("discarded_line_feed_skeleton_differs", 1)
		return
	}
	ra := string(redact.RedactableString(oa.out).Redact())
	rb := string(redact.RedactableString(ob.out).Redact())
	if ra != rb {
		w.Violate("C02 redacted-differs", "Redact(A)="+q(ra)+" Redact(B)="+q(rb)+" raw A="+q(oa.out)+" raw B="+q(ob.out)+" for "+call.String()+" via "+routeNames[route], cs())
		return
	}
	if oa.out != ob.out {
		w.Nontrivial(hashStrs(call.format(), argsKey(call), itoa(route)))
		w.Count("pairs_with_different_raw_output", 1)
	} else {
		w.Count("pairs_with_equal_raw_output", 1)
	}
	if idx%150001 == 7 {
		w.Sample(map[string]interface{}{"call_A": call.String(), "call_B": callB.String(), "raw_A_q": q(oa.out), "raw_B_q": q(ob.out), "redacted_q": q(ra)})
	}
}

func runC02(c *Ctx) {
	registerStdTypes()
	m := func() *mutator { return &mutator{registered: map[string]bool{"RegInt": true, "RegDur": true}} }
	calls := productCalls(productLeavesC02())
	c.AddCount("product_calls", int64(len(calls)))
	c.ParallelFor(int64(len(calls)), func(w *Worker, i int64) { c02check(w, m(), calls[i], routeS, i) })
	o := fullOpts()
	n := c.pick(1500000, 30000000)
	c.ParallelFor(n, func(w *Worker, i int64) {
		r := newRng(c.Seed, 0xc02, uint64(i))
		call := randCall(r, o)
		route := int(i % 6)
		if route == routeErrorf && call.Sp {
			route = routeS
		}
		c02check(w, m(), call, route, i)
		w.Count("random_calls", 1)
	})
	c02registeredPointer(c)
	c.res.Assumptions = []string{"public by the statement: types, container lengths, []byte length, nil-ness, emptiness/zero-ness of each leaf, line-feed positions, map-key order, star operands, everything declared safe",
		"pairs whose raw outputs differ in the number of line feeds are discarded (counted)"}
}

// productLeavesC02: the C04 product leaves plus redact-specific leaf forms.
func productLeavesC02() []*D {
	o := fullOpts()
	out := productLeaves(o, true)
	rich := "sec" + startM + "ret\n" + endM + "é9"
	out = append(out,
		dSub("Unsafe", dS("string", rich)),
		dSub("Unsafe", dSub("Safe", dS("string", rich))),
		dSub("Safe", dSub("Unsafe", dS("string", rich))),
		dSub("Unsafe", dS("SVStr", rich)),
		dSub("Unsafe", dSub("RS", dS("string", rich))),
		dSub("RS", dS("string", rich), dSub("Safe", dS("string", "pub"))),
		dSub("RB", dS("string", rich)),
		dSub("Builder", dS("string", rich)),
		&D{K: "SafeFmt", Sub: []*D{dS("sSafeString", "pub="), dS("sUnsafeString", rich), dSub("sPrint", dS("string", rich), dSub("Safe", dN("int", 3))), dS("sWrite", rich)}},
		dSub("slice", dSub("Safe", dS("string", "pub")), dS("string", rich), dS("bytes", rich)),
		dSub("S2", dSub("Unsafe", dS("SVStr", rich)), dS("NBytes", rich)),
		&D{K: "bytess", Sub: []*D{dS("string", rich), dS("string", "x")}},
		&D{K: "ints", Sub: []*D{dN("int", 48879), dN("int", 10), dN("int", 0)}},
		&D{K: "strs", Sub: []*D{dS("string", rich), dS("string", "")}},
		&D{K: "imap", Sub: []*D{dN("int", 3), dS("string", rich), dN("int", 6), dN("int", 48879)}},
		&D{K: "mapIntStr", Sub: []*D{dN("int", 3), dS("string", rich)}},
		dSub("ptr", dSub("slice", dS("string", rich), dN("int", 48879))),
		dSub("SEmbed", dS("string", rich), dN("uint8", 77), dS("Err", rich)),
		dSub("SErrField", dS("PErr", rich), dS("string", rich)),
		dSub("FmtFwd", dS("string", rich)),
		dSub("FmtFwd", dN("int", 48879)),
		dSub("errs", dS("Err", rich), dS("PErr", rich)),
		&D{K: "RVFieldT", N: 0, S: QS(rich)},
		&D{K: "RVFieldT", N: 1, S: QS(rich)},
		dSub("RVFieldI", dSub("Unsafe", dS("SVStr", rich))),
		dSub("RVFieldI", dSub("Safe", dS("string", "pub"))),
		dSub("RVFieldI", dSub("RS", dS("string", rich))),
		dSub("RVIdx", dSub("Unsafe", dS("SVStr", rich))),
		dSub("RVIdx", dSub("RB", dS("string", rich))),
		dSub("RVFieldE", dSub("Unsafe", dS("SVStr", rich))),
		dSub("RVFieldE", dSub("Safe", dS("string", "pub"))),
		dSub("RVFieldE", dSub("RS", dS("string", rich))),
		dSub("RVFieldE", dS("SVStr", rich)),
		dSub("RVFieldE", dS("RegStr", rich)),
	)
	return out
}

// c02RegPtrT: only the POINTER type *c02RegPtrT is registered as safe. Values of the struct type itself stay unsafe:
// what Redact() leaves of them must not depend on their content (a registry that normalises pointer types away
// would declare the pointee safe behind the caller's back).
type c02RegPtrT struct {
	User  string
	Token string
	N     int
}

type c02RegPtrNamed string

func c02registeredPointer(c *Ctx) {
	redact.RegisterSafeType(reflect.TypeOf((*c02RegPtrT)(nil)))
	redact.RegisterSafeType(reflect.TypeOf((**c02RegPtrNamed)(nil)))
	c.Serial(func(w *Worker) {
		a, b := c02RegPtrT{"alice", "tok-1111", 17}, c02RegPtrT{"bobby", "tok-2222", 42}
		na, nb := c02RegPtrNamed("alice"), c02RegPtrNamed("bobby")
		pna, pnb := &na, &nb
		shapes := []struct {
			name string
			mk   func(x c02RegPtrT, n c02RegPtrNamed, pn *c02RegPtrNamed) []interface{}
		}{
			{"top level", func(x c02RegPtrT, n c02RegPtrNamed, pn *c02RegPtrNamed) []interface{} { return []interface{}{x} }},
			{"interface slice", func(x c02RegPtrT, n c02RegPtrNamed, pn *c02RegPtrNamed) []interface{} { return []interface{}{[]interface{}{x, 1}} }},
			{"typed slice", func(x c02RegPtrT, n c02RegPtrNamed, pn *c02RegPtrNamed) []interface{} { return []interface{}{[]c02RegPtrT{x}} }},
			{"map value", func(x c02RegPtrT, n c02RegPtrNamed, pn *c02RegPtrNamed) []interface{} { return []interface{}{map[string]interface{}{"k": x}} }},
			{"struct field", func(x c02RegPtrT, n c02RegPtrNamed, pn *c02RegPtrNamed) []interface{} { return []interface{}{struct{ F interface{} }{x}} }},
			{"named string, pointee of a registered **T", func(x c02RegPtrT, n c02RegPtrNamed, pn *c02RegPtrNamed) []interface{} { return []interface{}{n} }},
			{"*named string, pointee of a registered **T", func(x c02RegPtrT, n c02RegPtrNamed, pn *c02RegPtrNamed) []interface{} { return []interface{}{[]interface{}{n}, []c02RegPtrNamed{n}} }},
		}
		for _, sh := range shapes {
			for _, f := range []string{"%v", "%+v", "%s", "%q", "%x", "%#v", "%d", "%10v", "%-12.3v|"} {
				if len(sh.mk(a, na, pna)) == 2 {
					f = f + " " + f
				}
				ra := redact.Sprintf(f, sh.mk(a, na, pna)...)
				rb := redact.Sprintf(f, sh.mk(b, nb, pnb)...)
				w.Eval(2)
				w.Nontrivial(hashStrs("regptr", sh.name, f))
				if ra.Redact() != rb.Redact() {
					w.Violate("C02 registered-pointer", fmt.Sprintf("only pointer types are registered as safe; Sprintf(%q) of values of the pointee type (%s) redacts to %q and %q for two contents (raw %q / %q)", f, sh.name, ra.Redact(), rb.Redact(), ra, rb),
						map[string]interface{}{"format": f, "shape": sh.name})
				}
				for _, leak := range []string{"alice", "tok-1111", "17"} {
					if strings.Contains(string(ra.Redact()), leak) {
						w.Violate("C02 registered-pointer", fmt.Sprintf("Sprintf(%q) of an unregistered value (%s) leaves %q visible after Redact(): %q", f, sh.name, leak, ra.Redact()), map[string]interface{}{"format": f, "shape": sh.name})
					}
				}
			}
		}
	})
}
