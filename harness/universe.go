package main

// The value universe: JSON-serialisable descriptors (D) and their
// interpretations:
//
//	real(d)   the value handed to redact (and, for fmt-compatible kinds, to fmt)
//	twin(d)   the stand-in handed to fmt by the bracket oracle (C05/C06/C08/C17):
//	          unsafe extents print between \x01 and \x02, redactables as placeholders
//
// Stateful values (payloads that panic the first k times) are rebuilt for every
// execution, so both sides of a differential see the same object history.

import (
	"encoding/json"
	"errors"
	"fmt"
	"io"
	"math"
	"reflect"
	"strconv"
	"unsafe"

	"github.com/cockroachdb/redact"
	"github.com/cockroachdb/redact/interfaces"
)

// QS is a string that survives JSON byte-exactly (Go-quoted).
type QS string

func (s QS) MarshalJSON() ([]byte, error) { return json.Marshal(strconv.Quote(string(s))) }
func (s *QS) UnmarshalJSON(b []byte) error {
	var qd string
	if err := json.Unmarshal(b, &qd); err != nil {
		return err
	}
	u, err := strconv.Unquote(qd)
	if err != nil {
		return err
	}
	*s = QS(u)
	return nil
}

// D describes a value.
type D struct {
	K   string  `json:"k"`
	S   QS      `json:"s,omitempty"`
	N   int64   `json:"n,omitempty"`
	F   float64 `json:"f,omitempty"`
	Sub []*D    `json:"sub,omitempty"`
}

func (d *D) String() string {
	b, _ := json.Marshal(d)
	return string(b)
}

func dS(k, s string) *D           { return &D{K: k, S: QS(s)} }
func dN(k string, n int64) *D     { return &D{K: k, N: n} }
func dSub(k string, sub ...*D) *D { return &D{K: k, Sub: sub} }
func dSN(k, s string, n int64) *D { return &D{K: k, S: QS(s), N: n} }

// classification contexts
const (
	ctxNone   = 0
	ctxSafe   = 1
	ctxUnsafe = 2
)

// buildCtx carries what the interpretations need.
type buildCtx struct {
	registered map[string]bool // registry configuration: kinds of the Reg* catalogue that are registered
	hook       bool            // an error hook is installed (C17)
	// twin side
	redactables []string       // redactable operands met while building a twin, by placeholder id
	twinFail    string         // set when a descriptor has no faithful twin (case is skipped)
	counters    []counterState // state of "panic the first k times" payloads
	// memo, when non-nil, makes a descriptor node build to the same Go value
	// every time (C02: nodes shared by the two instantiations are public, and
	// addresses printed from them must not differ between the runs).
	memo map[*D]interface{}
}

type counterState struct {
	p    *int
	init int
}

func newBuildCtx() *buildCtx { return &buildCtx{} }

// resetCounters puts every stateful payload back into its initial state, so
// that the same values can be handed to the other side of a differential.
func (bc *buildCtx) resetCounters() {
	for _, c := range bc.counters {
		*c.p = c.init
	}
}

var sharedInt = 0x5eed

// intOfKind converts n to the integer kind k.
func intOfKind(k string, n int64) interface{} {
	switch k {
	case "int":
		return int(n)
	case "int8":
		return int8(n)
	case "int16":
		return int16(n)
	case "int32":
		return int32(n)
	case "int64":
		return n
	case "uint":
		return uint(n)
	case "uint8":
		return uint8(n)
	case "uint16":
		return uint16(n)
	case "uint32":
		return uint32(n)
	case "uint64":
		return uint64(n)
	case "uintptr":
		return uintptr(n)
	case "NInt":
		return tNInt(n)
	case "NUint8":
		return tNUint8(n)
	}
	return nil
}

var intKinds = []string{"int", "int8", "int16", "int32", "int64", "uint", "uint8", "uint16", "uint32", "uint64", "uintptr", "NInt", "NUint8"}

func (bc *buildCtx) panicSpecOf(d *D) panicSpec {
	ps := panicSpec{mode: int(d.N % 10), msg: string(d.S)}
	if ps.mode == 5 {
		k := int(d.N/10) + 1
		ps.k = &k
		bc.counters = append(bc.counters, counterState{&k, k})
	}
	return ps
}

// real builds the value described by d.
func (bc *buildCtx) real(d *D) interface{} {
	if bc.memo == nil {
		return bc.realImpl(d)
	}
	if v, ok := bc.memo[d]; ok {
		return v
	}
	v := bc.realImpl(d)
	bc.memo[d] = v
	return v
}

func (bc *buildCtx) realImpl(d *D) interface{} {
	if v := intOfKind(d.K, d.N); v != nil {
		return v
	}
	switch d.K {
	case "nil":
		return nil
	case "bool":
		return d.N != 0
	case "NBool":
		return tNBool(d.N != 0)
	case "float32":
		return float32(floatOf(d))
	case "float64":
		return floatOf(d)
	case "NFloat":
		return tNFloat(floatOf(d))
	case "complex64":
		return complex(float32(floatOf(d)), float32(imagOf(d)))
	case "complex128":
		return complex(floatOf(d), imagOf(d))
	case "string":
		return string(d.S)
	case "NStr":
		return tNStr(d.S)
	case "bytes":
		if d.N == -1 {
			return []byte(nil)
		}
		return []byte(d.S)
	case "NBytes":
		return tNBytes(d.S)
	case "barr":
		var a [3]byte
		copy(a[:], d.S)
		return a
	case "TagStruct": // types whose name (as printed by %T, %#v and the bad-verb diagnostics) contains marker characters
		return struct {
			A int    `json:"‹x›"`
			B string `json:"›"`
		}{int(d.N), string(d.S)}
	case "TagNilPtr":
		return (*struct {
			A int `json:"‹"`
		})(nil)
	case "TagNilChan":
		return (chan struct {
			B string `k:"›é‹"`
		})(nil)
	case "TagMap":
		return map[string]struct {
			C int `json:"‹k›"`
		}{string(d.S): {int(d.N)}}
	case "barr8": // room for multi-byte runes (precision counts runes under %s/%q, bytes under %x)
		var a [8]byte
		copy(a[:], d.S)
		return a
	case "nbarr": // an array whose element type is a named byte type
		var a [4]tNUint8
		for i := 0; i < len(a) && i < len(d.S); i++ {
			a[i] = tNUint8(d.S[i])
		}
		return a
	case "nbslice":
		a := make([]tNUint8, len(d.S))
		for i := range a {
			a[i] = tNUint8(d.S[i])
		}
		return a
	case "SNArr": // the same inside a struct passed by value and behind an interface
		var a [4]tNUint8
		for i := 0; i < len(a) && i < len(d.S); i++ {
			a[i] = tNUint8(d.S[i])
		}
		return tSNArr{a, a}
	case "ptrInt":
		x := int(d.N)
		return &x
	case "nilPtrInt":
		return (*int)(nil)
	case "ptrStr":
		x := string(d.S)
		return &x
	case "ptrptr":
		x := int(d.N)
		px := &x
		return &px
	case "parr": // pointer to a byte array: the addressable-array path of %s/%x/%q
		var a [3]byte
		copy(a[:], d.S)
		return &a
	case "iarr":
		return [2]int{int(d.N), int(d.N >> 3)}
	case "sarr":
		return [2]string{string(d.S), ""}
	case "SArr": // arrays inside a struct passed by value: not addressable
		var a [3]byte
		copy(a[:], d.S)
		return tSArr{a, [2]int{int(d.N), 7}, [1]string{string(d.S)}}
	case "SNils":
		return tSNils{}
	case "NFunc":
		return tNFunc(nil)
	case "NilSliceStringer":
		if d.N%2 == 0 {
			return tPathStringer(nil)
		}
		return tPathStringer{}
	case "NilMapErr":
		return tMapErr(nil)
	case "NilFuncStringer":
		return tFuncStringer(nil)
	case "NChan":
		return tNChan(sharedChan)
	case "chan":
		return sharedChan
	case "nilChan":
		return (chan int)(nil)
	case "func":
		return sharedFunc
	case "nilFunc":
		return (func())(nil)
	case "uptr":
		return unsafe.Pointer(&sharedInt)
	case "nilMap":
		return map[string]int(nil)
	case "nilSlice":
		return []interface{}(nil)
	case "Stringer":
		return tStringer{string(d.S)}
	case "PStringer":
		return &tPStringer{string(d.S)}
	case "NilPStringer":
		return (*tPStringer)(nil)
	case "PStringerVal":
		return tPStringer{string(d.S)}
	case "Err":
		return tErr{string(d.S)}
	case "StdErr":
		return errors.New(string(d.S))
	case "WrapErr":
		return fmt.Errorf("wrap(%s): %w", string(d.S), errors.New(string(d.S)+"-inner"))
	case "PErr":
		return &tPErr{string(d.S)}
	case "NilPErr":
		return (*tPErr)(nil)
	case "ErrStringer":
		return tErrStringer{string(d.S), "S:" + string(d.S)}
	case "GoStringer":
		return tGoStringer{string(d.S)}
	case "GoStrStringer":
		return tGoStrStringer{"G:" + string(d.S), string(d.S)}
	case "Fmter":
		return tFmter{string(d.S)}
	case "PadFmter":
		return tPadFmter{string(d.S)}
	case "ErrFmter":
		return tErrFmter{"E:" + string(d.S), string(d.S)}
	case "FmtFlags":
		return tFmtFlags{string(d.S), d.N == 0}
	case "FmtFwd":
		return tFmtFwd{bc.real(d.Sub[0])}
	case "PanicStringer":
		return tPanicStringer{bc.panicSpecOf(d)}
	case "PanicErr":
		return tPanicErr{bc.panicSpecOf(d)}
	case "PanicGoStr":
		return tPanicGoStr{bc.panicSpecOf(d)}
	case "PanicFmter":
		return tPanicFmter{"part:", bc.panicSpecOf(d)}
	case "Safe":
		return redact.Safe(bc.real(d.Sub[0]))
	case "Unsafe":
		return redact.Unsafe(bc.real(d.Sub[0]))
	case "RS":
		return bc.redactableOf(d)
	case "RB":
		return bc.redactableOf(d).ToBytes()
	case "RSlit": // a redactable string obtained from the library earlier in the run
		return redact.RedactableString(d.S)
	case "RBlit":
		return redact.RedactableBytes(d.S)
	case "rsmap": // map[RedactableString]interface{} with one key
		return map[redact.RedactableString]interface{}{redact.RedactableString(d.Sub[0].S): bc.real(d.Sub[1])}
	case "Builder":
		var b redact.StringBuilder
		b.Print(bc.redactableOf(d))
		return b
	case "PBuilder":
		b := new(redact.StringBuilder)
		b.Print(bc.redactableOf(d))
		return b
	case "SafeFmt":
		return tSafeFmt{d.Sub, func() *buildCtx { return bc }}
	case "SafeFmtErr":
		return tSafeFmtErr{tSafeFmt{d.Sub, func() *buildCtx { return bc }}}
	case "PSafeFmtErr": // pointer form: comparable, for identity checks (C15)
		return &tSafeFmtErr{tSafeFmt{d.Sub, func() *buildCtx { return bc }}}
	case "SafeMsg":
		return tSafeMsg{string(d.S)}
	case "SVInt":
		return tSVInt(d.N)
	case "SVStr":
		return tSVStr(d.S)
	case "SVFloat":
		return tSVFloat(d.F)
	case "SVBytes":
		return tSVBytes(d.S)
	case "SVStringer":
		return tSVStringer{string(d.S)}
	case "SVStruct":
		return tSVStruct{bc.real(d.Sub[0]), bc.real(d.Sub[1])}
	case "SVSlice":
		return tSVSlice(bc.reals(d.Sub))
	case "ISafeString":
		return interfaces.SafeString(d.S)
	case "ISafeInt":
		return interfaces.SafeInt(d.N)
	case "ISafeUint":
		return interfaces.SafeUint(d.N)
	case "ISafeFloat":
		return interfaces.SafeFloat(d.F)
	case "ISafeRune":
		return interfaces.SafeRune(d.N)
	case "ISafeByte":
		return interfaces.SafeByte(d.N)
	case "ISafeBytes":
		return interfaces.SafeBytes(d.S)
	case "RegInt":
		return tRegInt(d.N)
	case "RegStr":
		return tRegStr(d.S)
	case "RegDur":
		return tRegDur(d.N)
	case "RegStruct":
		return tRegStruct{bc.real(d.Sub[0]), int(d.N)}
	case "RValue":
		return reflect.ValueOf(bc.real(d.Sub[0]))
	case "RValueZero":
		return reflect.Value{}
	case "RValueField":
		// a value obtained through an unexported field (CanInterface false)
		return reflect.ValueOf(tSUnexp{int(d.N), string(d.S), string(d.S)}).Field(int(d.N&1) + 1)
	case "RVIdx":
		// an interface-kind value (what a generic walker gets from a slice element): accessible, addressable
		return reflect.ValueOf([]interface{}{bc.real(d.Sub[0])}).Index(0)
	case "RVIdxS":
		// the same from a slice typed with a non-empty interface (the static type has methods)
		if st, ok := bc.real(d.Sub[0]).(fmt.Stringer); ok {
			return reflect.ValueOf([]fmt.Stringer{st}).Index(0)
		}
		return reflect.ValueOf([]interface{}{bc.real(d.Sub[0])}).Index(0)
	case "RVFieldI":
		// an interface-kind value from an unexported field: read-only
		return reflect.ValueOf(tSUnexp{int(d.N), string(d.S), bc.real(d.Sub[0])}).Field(2)
	case "RVFieldE":
		// the read-only concrete value held by an unexported interface field (the invalid Value for nil)
		return reflect.ValueOf(tSUnexp{int(d.N), string(d.S), bc.real(d.Sub[0])}).Field(2).Elem()
	case "RVFieldT":
		// a read-only value of a named type (N selects the field)
		return reflect.ValueOf(tSUnexpT{redact.RedactableString(rvRed(d)), redact.RedactableBytes(rvRed(d)), tRegStr(d.S), tRegInt(d.N >> 3), tSVStr(d.S), tStringer{string(d.S)}, tRegDur(d.N >> 3)}).Field(rvFieldTIndex(d))
	case "slice":
		return bc.reals(d.Sub)
	case "arr":
		var a [2]interface{}
		for i := 0; i < 2 && i < len(d.Sub); i++ {
			a[i] = bc.real(d.Sub[i])
		}
		return a
	case "ints":
		out := make([]int, len(d.Sub))
		for i, s := range d.Sub {
			out[i] = int(s.N)
		}
		return out
	case "strs":
		out := make([]string, len(d.Sub))
		for i, s := range d.Sub {
			out[i] = string(s.S)
		}
		return out
	case "bytess":
		out := make([][]byte, len(d.Sub))
		for i, s := range d.Sub {
			out[i] = []byte(s.S)
		}
		return out
	case "strgs": // []fmt.Stringer: a container typed with a non-empty interface
		out := make([]fmt.Stringer, len(d.Sub))
		for i, s := range d.Sub {
			if e, ok := bc.real(s).(fmt.Stringer); ok {
				out[i] = e
			}
		}
		return out
	case "errs":
		out := make([]error, len(d.Sub))
		for i, s := range d.Sub {
			if e, ok := bc.real(s).(error); ok {
				out[i] = e
			}
		}
		return out
	case "map": // map[string]interface{}: Sub = k0,v0,k1,v1,...
		m := map[string]interface{}{}
		for i := 0; i+1 < len(d.Sub); i += 2 {
			m[string(d.Sub[i].S)] = bc.real(d.Sub[i+1])
		}
		return m
	case "imap": // map[interface{}]interface{} with keys of one comparable kind
		m := map[interface{}]interface{}{}
		for i := 0; i+1 < len(d.Sub); i += 2 {
			m[bc.real(d.Sub[i])] = bc.real(d.Sub[i+1])
		}
		return m
	case "kmap": // map[interface{}]interface{} with keys of mixed kinds (fmtsort's cross-type ordering), incl. the nil key
		m := map[interface{}]interface{}{}
		for i := 0; i+1 < len(d.Sub); i += 2 {
			m[bc.keyOf(d.Sub[i])] = bc.real(d.Sub[i+1])
		}
		return m
	case "fmap":
		m := map[float64]string{}
		for i := 0; i+1 < len(d.Sub); i += 2 {
			m[d.Sub[i].F] = string(d.Sub[i+1].S)
		}
		return m
	case "amap":
		m := map[[2]int]bool{}
		for i := 0; i+1 < len(d.Sub); i += 2 {
			m[[2]int{int(d.Sub[i].N), int(d.Sub[i].N >> 8)}] = d.Sub[i+1].N != 0
		}
		return m
	case "bmap":
		m := map[bool]string{}
		for i := 0; i+1 < len(d.Sub); i += 2 {
			m[d.Sub[i].N != 0] = string(d.Sub[i+1].S)
		}
		return m
	case "cmap":
		m := map[chan int]string{}
		for i := 0; i+1 < len(d.Sub); i += 2 {
			m[keyChans[uint64(d.Sub[i].N)%4]] = string(d.Sub[i+1].S)
		}
		return m
	case "mapIntStr":
		m := map[int]string{}
		for i := 0; i+1 < len(d.Sub); i += 2 {
			m[int(d.Sub[i].N)] = string(d.Sub[i+1].S)
		}
		return m
	case "S2":
		return tS2{bc.real(d.Sub[0]), bc.real(d.Sub[1])}
	case "S3":
		return tS3{bc.real(d.Sub[0]), bc.real(d.Sub[1]), bc.real(d.Sub[2])}
	case "STyped":
		x := int(d.N)
		var p *int
		if d.N%2 == 0 {
			p = &x
		}
		return tSTyped{int(d.N), string(d.S), []byte(d.S), d.F, p}
	case "SUnexp":
		return tSUnexp{int(d.N), string(d.S), bc.real(d.Sub[0])}
	case "SEmbed":
		return tSEmbed{tS2{bc.real(d.Sub[0]), bc.real(d.Sub[1])}, bc.real(d.Sub[2])}
	case "SErrField":
		e, _ := bc.real(d.Sub[0]).(error)
		return tSErrField{e, bc.real(d.Sub[1])}
	case "ptr": // pointer to a composite
		v := bc.real(d.Sub[0])
		if v == nil {
			return (*int)(nil)
		}
		p := reflect.New(reflect.TypeOf(v))
		p.Elem().Set(reflect.ValueOf(v))
		return p.Interface()
	}
	panic("universe: unknown kind " + d.K)
}

var sharedChan = make(chan int)

// shared targets of channel- and pointer-typed map keys (the nil channel first)
var keyChans = [4]chan int{nil, make(chan int), make(chan int), make(chan int)}
var keyInts [3]int
var sharedFunc = func() {}

func (bc *buildCtx) reals(ds []*D) []interface{} {
	out := make([]interface{}, len(ds))
	for i, d := range ds {
		out[i] = bc.real(d)
	}
	return out
}

// redactableOf produces a redactable string from the library itself: the
// Sprint/Sprintf of the sub-descriptors (S, when set, is the format).
func (bc *buildCtx) redactableOf(d *D) redact.RedactableString {
	if d.K == "RSlit" || d.K == "RBlit" {
		return redact.RedactableString(d.S)
	}
	args := bc.reals(d.Sub)
	if d.S != "" {
		return redact.Sprintf(string(d.S), args...)
	}
	return redact.Sprint(args...)
}

// ---- SafeFormatter scripts ---------------------------------------------------

// runStep executes one script step on a SafePrinter.
// stepTarget is what a script step needs: the SafeWriter side and the plain
// writer side. SafePrinter and *StringBuilder both qualify.
type stepTarget interface {
	interfaces.SafeWriter
	io.Writer
}

func (bc *buildCtx) runStep(p stepTarget, st *D, verb rune) {
	switch st.K {
	case "sSafeString":
		p.SafeString(interfaces.SafeString(st.S))
	case "sSafeInt":
		p.SafeInt(interfaces.SafeInt(st.N))
	case "sSafeUint":
		p.SafeUint(interfaces.SafeUint(st.N))
	case "sSafeFloat":
		p.SafeFloat(interfaces.SafeFloat(st.F))
	case "sSafeRune":
		p.SafeRune(interfaces.SafeRune(st.N))
	case "sSafeByte":
		p.SafeByte(interfaces.SafeByte(st.N))
	case "sSafeBytes":
		p.SafeBytes(interfaces.SafeBytes(st.S))
	case "sUnsafeString":
		p.UnsafeString(string(st.S))
	case "sUnsafeBytes":
		p.UnsafeBytes([]byte(st.S))
	case "sUnsafeRune":
		p.UnsafeRune(rune(st.N))
	case "sUnsafeByte":
		p.UnsafeByte(byte(st.N))
	case "sWrite":
		p.Write([]byte(st.S))
	case "sWriteString":
		io.WriteString(p, string(st.S))
	case "sPrint":
		p.Print(bc.reals(st.Sub)...)
	case "sPrintf":
		p.Printf(string(st.S), bc.reals(st.Sub)...)
	case "sVerb":
		p.SafeRune(interfaces.SafeRune(verb))
	case "sPanic":
		bc.panicSpecOf(st).fire()
	default:
		panic("universe: unknown step " + st.K)
	}
}

// runStepTwin executes the same step on a fmt.State; unsafe extents are bracketed.
func (bc *buildCtx) runStepTwin(f fmt.State, st *D, verb rune, ctx int) {
	safe := func(s string) {
		if ctx == ctxUnsafe {
			io.WriteString(f, "\x01"+s+"\x02")
		} else {
			io.WriteString(f, s)
		}
	}
	unsafe := func(s string) {
		if ctx == ctxSafe {
			io.WriteString(f, s)
		} else {
			io.WriteString(f, "\x01"+s+"\x02")
		}
	}
	switch st.K {
	case "sSafeString", "sSafeBytes":
		safe(string(st.S))
	case "sSafeInt":
		safe(strconv.FormatInt(st.N, 10))
	case "sSafeUint":
		safe(strconv.FormatUint(uint64(st.N), 10))
	case "sSafeFloat":
		safe(fmt.Sprint(st.F))
	case "sSafeRune":
		safe(string(rune(st.N)))
	case "sSafeByte":
		safe(string([]byte{byte(st.N)}))
	case "sUnsafeString", "sUnsafeBytes", "sWrite", "sWriteString":
		unsafe(string(st.S))
	case "sUnsafeRune":
		unsafe(string(rune(st.N)))
	case "sUnsafeByte":
		unsafe(string([]byte{byte(st.N)}))
	case "sPrint":
		if ctx == ctxUnsafe {
			io.WriteString(f, "\x01")
			fmt.Fprint(f, bc.plains(st.Sub)...)
			io.WriteString(f, "\x02")
		} else {
			tw := bc.twins(st.Sub, ctx)
			bc.checkSprintKinds(st.Sub, tw)
			fmt.Fprint(f, tw...)
		}
	case "sPrintf":
		if ctx == ctxUnsafe {
			io.WriteString(f, "\x01")
			fmt.Fprintf(f, string(st.S), bc.plains(st.Sub)...)
			io.WriteString(f, "\x02")
		} else {
			fmt.Fprintf(f, string(st.S), bc.twins(st.Sub, ctx)...)
		}
	case "sVerb":
		safe(string(verb))
	case "sPanic":
		bc.panicSpecOf(st).fire()
	default:
		panic("universe: unknown step " + st.K)
	}
}

// ---- the fmt-side twin ---------------------------------------------------------

// checkSprintKinds: Print-style calls put a space between operands unless
// one of them is of string kind; a stand-in of another kind than the real
// operand would be spaced differently, so such cases have no faithful twin.
func (bc *buildCtx) checkSprintKinds(ds []*D, tw []interface{}) {
	rb := &buildCtx{registered: bc.registered}
	for i, d := range ds {
		rv := rb.real(d)
		if (rv != nil && reflect.TypeOf(rv).Kind() == reflect.String) != (tw[i] != nil && reflect.TypeOf(tw[i]).Kind() == reflect.String) {
			bc.fail("Print operand of string kind")
		}
	}
}

func (bc *buildCtx) twins(ds []*D, ctx int) []interface{} {
	out := make([]interface{}, len(ds))
	for i, d := range ds {
		out[i] = bc.twin(d, ctx)
	}
	return out
}

func (bc *buildCtx) plains(ds []*D) []interface{} {
	out := make([]interface{}, len(ds))
	for i, d := range ds {
		out[i] = bc.plain(d)
	}
	return out
}

func (bc *buildCtx) fail(why string) {
	if bc.twinFail == "" {
		bc.twinFail = why
	}
}

// plain is the value fmt would be given for d with every redact-specific
// wrapper removed (used inside a bracket, where everything is unsafe anyway).
func (bc *buildCtx) plain(d *D) interface{} {
	switch d.K {
	case "Safe", "Unsafe":
		return bc.plain(d.Sub[0])
	case "RS", "Builder", "RSlit":
		// under Unsafe a redactable prints as its plain bytes
		return string(bc.redactableOf(d))
	case "RB", "RBlit":
		// RedactableBytes under Unsafe prints like a []byte
		return []byte(bc.redactableOf(d))
	case "PBuilder":
		bc.fail("pointer to builder under Unsafe")
		return nil
	case "SafeFmt", "SafeFmtErr":
		// under Unsafe the SafeFormat method is not called
		bc.fail("SafeFormatter under Unsafe prints structurally")
		return nil
	case "SafeMsg":
		bc.fail("SafeMessager under Unsafe prints structurally")
		return nil
	case "slice":
		return bc.plains(d.Sub)
	case "strgs":
		out := make([]fmt.Stringer, len(d.Sub))
		for i, s := range d.Sub {
			if e, ok := bc.plain(s).(fmt.Stringer); ok {
				out[i] = e
			}
		}
		return out
	case "SVSlice":
		return tSVSlice(bc.plains(d.Sub))
	case "arr":
		var a [2]interface{}
		for i := 0; i < 2 && i < len(d.Sub); i++ {
			a[i] = bc.plain(d.Sub[i])
		}
		return a
	case "map":
		m := map[string]interface{}{}
		for i := 0; i+1 < len(d.Sub); i += 2 {
			m[string(d.Sub[i].S)] = bc.plain(d.Sub[i+1])
		}
		return m
	case "imap":
		m := map[interface{}]interface{}{}
		for i := 0; i+1 < len(d.Sub); i += 2 {
			m[bc.plain(d.Sub[i])] = bc.plain(d.Sub[i+1])
		}
		return m
	case "S2":
		return tS2{bc.plain(d.Sub[0]), bc.plain(d.Sub[1])}
	case "S3":
		if containsWrapper(d.Sub[1]) {
			bc.fail("wrapper in unexported field")
		}
		return tS3{bc.plain(d.Sub[0]), bc.plain(d.Sub[1]), bc.plain(d.Sub[2])}
	case "SVStruct":
		return tSVStruct{bc.plain(d.Sub[0]), bc.plain(d.Sub[1])}
	case "SEmbed":
		return tSEmbed{tS2{bc.plain(d.Sub[0]), bc.plain(d.Sub[1])}, bc.plain(d.Sub[2])}
	case "SErrField":
		e, _ := bc.plain(d.Sub[0]).(error)
		return tSErrField{e, bc.plain(d.Sub[1])}
	case "RegStruct":
		return tRegStruct{bc.plain(d.Sub[0]), int(d.N)}
	case "SUnexp":
		if containsWrapper(d.Sub[0]) {
			bc.fail("wrapper in unexported field")
		}
		return tSUnexp{int(d.N), string(d.S), bc.plain(d.Sub[0])}
	case "FmtFwd":
		return tFmtFwd{bc.plain(d.Sub[0])}
	case "RValue":
		return reflect.ValueOf(bc.plain(d.Sub[0]))
	case "RVIdx", "RVIdxS":
		return reflect.ValueOf([]interface{}{bc.plain(d.Sub[0])}).Index(0)
	case "RVFieldI":
		if containsWrapper(d.Sub[0]) {
			bc.fail("wrapper in unexported field")
		}
		return reflect.ValueOf(tSUnexp{int(d.N), string(d.S), bc.plain(d.Sub[0])}).Field(2)
	case "RVFieldE":
		if containsWrapper(d.Sub[0]) {
			bc.fail("wrapper in unexported field")
		}
		return reflect.ValueOf(tSUnexp{int(d.N), string(d.S), bc.plain(d.Sub[0])}).Field(2).Elem()
	case "RVFieldT":
		if rvFieldTIndex(d) < 2 {
			bc.fail("read-only redactable under Unsafe ignores the verb")
		}
		return bc.real(d)
	case "ptr":
		v := bc.plain(d.Sub[0])
		if v == nil {
			return (*int)(nil)
		}
		p := reflect.New(reflect.TypeOf(v))
		p.Elem().Set(reflect.ValueOf(v))
		return p.Interface()
	}
	return bc.real(d)
}

func containsWrapper(d *D) bool {
	switch d.K {
	case "Safe", "Unsafe", "RS", "RB", "RSlit", "RBlit", "rsmap", "Builder", "PBuilder", "SafeFmt", "SafeFmtErr", "SafeMsg":
		return true
	}
	for _, s := range d.Sub {
		if containsWrapper(s) {
			return true
		}
	}
	return false
}

// isSafeKind: the value is declared safe by its own type.
func (bc *buildCtx) isSafeKind(k string) bool {
	switch k {
	case "SVInt", "SVStr", "SVFloat", "SVBytes", "SVStringer", "SVStruct", "SVSlice",
		"ISafeString", "ISafeInt", "ISafeUint", "ISafeFloat", "ISafeRune", "ISafeByte", "ISafeBytes":
		return true
	case "RegInt", "RegStr", "RegDur", "RegStruct":
		return bc.registered[k]
	}
	return false
}

// twin builds the fmt-side stand-in of d in classification context ctx.
func (bc *buildCtx) twin(d *D, ctx int) interface{} {
	if ctx == ctxUnsafe {
		return brk{bc.plain(d)}
	}
	if ctx == ctxSafe {
		return bc.twinSafe(d)
	}
	switch d.K {
	case "nil":
		return nil // untyped nil prints a safe <nil>
	case "Safe":
		return bc.twinSafe(d.Sub[0])
	case "Unsafe":
		if d.Sub[0].K == "nil" {
			// fmt pads a top-level nil but not a nil inside a container; a
			// bracket stand-in cannot tell the two positions apart.
			bc.fail("Unsafe(nil)")
			return nil
		}
		return brk{bc.plain(d.Sub[0])}
	case "RS", "RB", "Builder", "PBuilder", "RSlit", "RBlit":
		bc.redactables = append(bc.redactables, string(bc.redactableOf(d)))
		return placeholder{len(bc.redactables) - 1}
	case "rsmap":
		bc.redactables = append(bc.redactables, string(d.Sub[0].S))
		return map[placeholder]interface{}{{len(bc.redactables) - 1}: bc.twin(d.Sub[1], ctx)}
	case "SafeFmt":
		return tSafeFmtTwin{d.Sub, bc, ctxNone}
	case "SafeFmtErr":
		return tSafeFmtTwin{d.Sub, bc, ctxNone}
	case "SafeMsg":
		return strTwin{string(d.S)} // printed as a safe string under the directive
	case "slice", "strgs":
		return bc.twins(d.Sub, ctx)
	case "arr":
		var a [2]interface{}
		for i := 0; i < 2 && i < len(d.Sub); i++ {
			a[i] = bc.twin(d.Sub[i], ctx)
		}
		return a
	case "map":
		// string keys are unsafe leaves; fmt sorts map[string] keys by value, a
		// bracketed key type would sort differently: use map[brkKey] with the same order.
		m := map[brkStr]interface{}{}
		for i := 0; i+1 < len(d.Sub); i += 2 {
			m[brkStr(d.Sub[i].S)] = bc.twin(d.Sub[i+1], ctx)
		}
		return m
	case "S2":
		return tS2{bc.twin(d.Sub[0], ctx), bc.twin(d.Sub[1], ctx)}
	case "SEmbed":
		return tSEmbed{tS2{bc.twin(d.Sub[0], ctx), bc.twin(d.Sub[1], ctx)}, bc.twin(d.Sub[2], ctx)}
	case "ptr":
		v := bc.twin(d.Sub[0], ctx)
		if v == nil {
			return (*int)(nil)
		}
		p := reflect.New(reflect.TypeOf(v))
		p.Elem().Set(reflect.ValueOf(v))
		return p.Interface()
	case "RValue":
		v := bc.twin(d.Sub[0], ctx)
		if _, isBrk := v.(brk); isBrk {
			return v
		}
		if v == nil {
			bc.fail("reflect.Value of a wrapper around nil") // reflect.ValueOf(nil) is the invalid Value
			return nil
		}
		return reflect.ValueOf(v)
	case "RVIdx", "RVIdxS":
		if wrappedNil(d.Sub[0]) {
			// the content of a wrapper is printed like a top-level operand (a nil is padded); the stand-in
			// would be a nil interface inside the reflect.Value (not padded by fmt)
			bc.fail("reflect.Value of a wrapper around nil")
			return nil
		}
		return reflect.ValueOf([]interface{}{bc.twin(d.Sub[0], ctx)}).Index(0)
	case "RVFieldI":
		// printed structurally, without methods: only leaves whose structural rendering is one unsafe extent
		sub := d.Sub[0]
		switch {
		case sub.K == "RSlit" || sub.K == "RBlit":
			bc.redactables = append(bc.redactables, string(sub.S))
			return placeholder{len(bc.redactables) - 1}
		case sub.K == "nil":
			return bc.real(d)
		case sub.K == "RegInt" || sub.K == "RegStr" || sub.K == "RegDur":
			if bc.registered[sub.K] {
				return bc.real(d)
			}
			return brk{bc.real(d)}
		case structuralLeaf(sub.K):
			return brk{bc.real(d)}
		}
		bc.fail("no faithful twin for " + sub.K + " in a read-only interface value")
		return nil
	case "RVFieldT":
		switch rvFieldTIndex(d) {
		case 0, 1:
			bc.redactables = append(bc.redactables, rvRed(d))
			return placeholder{len(bc.redactables) - 1}
		case 2, 3, 6:
			if bc.registered[[]string{"", "", "RegStr", "RegInt", "", "", "RegDur"}[rvFieldTIndex(d)]] {
				return bc.real(d)
			}
			return brk{bc.real(d)}
		}
		bc.fail("no faithful twin for a read-only SafeValue / struct value")
		return nil
	}
	if bc.isSafeKind(d.K) {
		return bc.twinSafe(d) // safe as a whole; redactables inside keep their own envelopes
	}
	if !leafBracketable(d.K) {
		bc.fail("no faithful twin for kind " + d.K)
		return nil
	}
	if d.K == "string" || d.K == "NStr" {
		return brkStr(d.S) // a stand-in of string kind (Sprint spaces operands by kind)
	}
	return brk{bc.real(d)}
}

// brkStr is a string-kinded map key that prints bracketed.
type brkStr string

func (b brkStr) Format(f fmt.State, verb rune) {
	io.WriteString(f, "\x01")
	fmt.Fprintf(f, fmt.FormatString(f, verb), string(b))
	io.WriteString(f, "\x02")
}

// twinSafe: everything under a Safe() is safe: plain values, except that
// redactables keep their own envelopes (placeholders) and SafeFormatter
// scripts run with safe context.
func (bc *buildCtx) twinSafe(d *D) interface{} {
	switch d.K {
	case "Safe", "Unsafe":
		return bc.twinSafe(d.Sub[0])
	case "RS", "RB", "Builder", "PBuilder", "RSlit", "RBlit":
		bc.redactables = append(bc.redactables, string(bc.redactableOf(d)))
		return placeholder{len(bc.redactables) - 1}
	case "SafeFmt", "SafeFmtErr":
		return tSafeFmtTwin{d.Sub, bc, ctxSafe}
	case "SafeMsg":
		return strTwin{string(d.S)}
	case "slice", "strgs":
		return bc.twins(d.Sub, ctxSafe)
	case "arr":
		var a [2]interface{}
		for i := 0; i < 2 && i < len(d.Sub); i++ {
			a[i] = bc.twinSafe(d.Sub[i])
		}
		return a
	case "map":
		m := map[string]interface{}{}
		for i := 0; i+1 < len(d.Sub); i += 2 {
			m[string(d.Sub[i].S)] = bc.twinSafe(d.Sub[i+1])
		}
		return m
	case "S2":
		return tS2{bc.twinSafe(d.Sub[0]), bc.twinSafe(d.Sub[1])}
	case "SVStruct":
		return tSVStruct{bc.twinSafe(d.Sub[0]), bc.twinSafe(d.Sub[1])}
	case "SVSlice":
		return tSVSlice(bc.twins(d.Sub, ctxSafe))
	case "RegStruct":
		return tRegStruct{bc.twinSafe(d.Sub[0]), int(d.N)}
	case "SEmbed":
		return tSEmbed{tS2{bc.twinSafe(d.Sub[0]), bc.twinSafe(d.Sub[1])}, bc.twinSafe(d.Sub[2])}
	case "ptr":
		v := bc.twinSafe(d.Sub[0])
		if v == nil {
			return (*int)(nil)
		}
		p := reflect.New(reflect.TypeOf(v))
		p.Elem().Set(reflect.ValueOf(v))
		return p.Interface()
	case "RValue":
		v := bc.twinSafe(d.Sub[0])
		if v == nil {
			bc.fail("reflect.Value of a wrapper around nil")
			return nil
		}
		return reflect.ValueOf(v)
	case "RVIdx", "RVIdxS":
		if wrappedNil(d.Sub[0]) {
			bc.fail("reflect.Value of a wrapper around nil")
			return nil
		}
		return reflect.ValueOf([]interface{}{bc.twinSafe(d.Sub[0])}).Index(0)
	case "RVFieldI":
		if k := d.Sub[0].K; k == "RSlit" || k == "RBlit" {
			bc.redactables = append(bc.redactables, string(d.Sub[0].S))
			return placeholder{len(bc.redactables) - 1}
		}
	case "RVFieldT":
		if rvFieldTIndex(d) < 2 {
			bc.redactables = append(bc.redactables, rvRed(d))
			return placeholder{len(bc.redactables) - 1}
		}
		return bc.real(d)
	}
	if containsWrapper(d) {
		bc.fail("wrapper below kind " + d.K + " in safe context")
	}
	return bc.real(d)
}

// leafBracketable: kinds whose whole rendering the statement of C05 places
// inside envelopes (scalars, strings, and values printed through their
// String/Error/Format/GoString method).
func leafBracketable(k string) bool {
	switch k {
	case "bool", "NBool", "float32", "float64", "NFloat", "string", "NStr",
		"Stringer", "PStringer", "Err", "StdErr", "WrapErr", "PErr", "ErrStringer", "GoStrStringer", "Fmter", "PadFmter", "ErrFmter", "FmtFlags",
		"RegInt", "RegStr", "RegDur":
		return true
	}
	return intOfKind(k, 0) != nil
}

// tSUnexpT: values of named types in unexported fields.
type tSUnexpT struct {
	rs  redact.RedactableString
	rb  redact.RedactableBytes
	reg tRegStr
	ri  tRegInt
	sv  tSVStr
	st  tStringer
	rd  tRegDur
}

func rvFieldTIndex(d *D) int { return int(uint64(d.N) % 7) }

// rvRed: the redactable held by the rs/rb fields: the payload itself when it is a redactable
// obtained from the library (K2 == "lit"), otherwise the library's own print of it.
func rvRed(d *D) string {
	if d.F == 1 {
		return string(d.S)
	}
	return string(redact.Sprint(string(d.S)))
}

// wrappedNil: Safe()/Unsafe() (nested or not) around the untyped nil.
func wrappedNil(d *D) bool {
	n := 0
	for d.K == "Safe" || d.K == "Unsafe" {
		d = d.Sub[0]
		n++
	}
	return n > 0 && d.K == "nil"
}

// structuralLeaf: kinds whose rendering without any method is a single scalar or string.
func structuralLeaf(k string) bool {
	switch k {
	case "bool", "NBool", "float32", "float64", "NFloat", "string", "NStr":
		return true
	}
	return intOfKind(k, 0) != nil
}

type tSNArr struct {
	A [4]tNUint8
	I interface{}
}

type tKeyStruct struct {
	A int
	B string
}

type tKeyStructI struct {
	Tag interface{}
	N   int
}

// keyOf builds a comparable map key of one of several kinds.
func (bc *buildCtx) keyOf(d *D) interface{} {
	switch d.K {
	case "nil":
		return nil
	case "kstruct":
		return tKeyStruct{int(d.N), string(d.S)}
	case "kstructI":
		var tag interface{}
		if d.S != "" {
			tag = string(d.S)
		}
		return tKeyStructI{tag, int(d.N)}
	case "karr":
		return [2]int{int(d.N), int(d.N >> 4)}
	case "kcomplex":
		return complex(d.F, float64(d.N))
	case "kchan":
		return keyChans[uint64(d.N)%4]
	case "kuptr":
		return unsafe.Pointer(&keyInts[uint64(d.N)%3])
	case "kptr":
		return &keyInts[uint64(d.N)%3]
	}
	return bc.real(d)
}

// imagOf: the imaginary part of a complex descriptor: N, or one of the special values for N = 9001...
func imagOf(d *D) float64 {
	switch d.N {
	case 9001:
		return math.NaN()
	case 9002:
		return math.Inf(1)
	case 9003:
		return math.Inf(-1)
	case 9004:
		return math.Copysign(0, -1)
	case 9005:
		return 2.5e-7
	}
	return float64(d.N)
}

// floatOf: the float payload of d; S selects the values JSON cannot carry.
func floatOf(d *D) float64 {
	switch d.S {
	case "NaN":
		return math.NaN()
	case "+Inf":
		return math.Inf(1)
	case "-Inf":
		return math.Inf(-1)
	case "-0":
		return math.Copysign(0, -1)
	case "subnormal":
		return 5e-324
	}
	return d.F
}

type tSArr struct {
	B [3]byte
	I [2]int
	S [1]string
}

type tSNils struct {
	M map[string]int
	S []int
	P *int
	F func()
	C chan int
	I interface{}
	E error
	B []byte
}

type tNFunc func()
type tNChan chan int

// nil-able non-pointer types whose methods panic on the nil (or empty) value: the panic is reported like any other
// (only a nil *pointer* receiver is rendered as <nil>)
type tPathStringer []string

func (p tPathStringer) String() string { return p[0] }

type tMapErr map[string]int

func (m tMapErr) Error() string { m["x"] = 1; return "unreachable for a nil map" }

type tFuncStringer func() string

func (f tFuncStringer) String() string { return f() }
