package main

// C05 — exactly the unsafe arguments are enveloped; declared-safe data stays visible.
//
// Oracle: an instrumented fmt rendering. From the same descriptor a second
// operand list is built for fmt in which every unsafe leaf is a stand-in
// that prints \x01, the leaf under the forwarded directive, \x02 (see
// universe.go: twin). Brackets become envelopes; the result, in canonical
// form, must equal the canonical redact output.

import (
	"reflect"
	"strings"

	"github.com/cockroachdb/redact"
)

func init() {
	register("C05", &monitor{
		phases: func(tier string) []string { return []string{"main"} },
		run:    runC05,
		rule: "per registry configuration (subsets of a 4-type catalogue, registry reset through the tagged hook): (1) product leaf kind x valid verb x flags x width/precision x position (top level, interface-typed slice element, map value, map key, struct field, pointer to struct, reflect.Value) x wrapper (none, Safe, Unsafe), " +
			"(2) random calls mixing safe and unsafe leaves, wrappers, redactables, SafeFormatter scripts and SafeMessagers in interface-typed containers, with verbs valid for their operands; oracle: canonical redact output == canonical form of the bracket-instrumented fmt rendering; " +
			"non-trivial = the expected output has both safe text and at least one envelope; distinct = distinct (configuration, format, operands)",
	})
}

// bracketsToRedactable converts an instrumented fmt rendering into the
// expected redactable string (not canonical).
func bracketsToRedactable(f string, reds []string) (string, bool) {
	var b strings.Builder
	for i := 0; i < len(f); {
		switch f[i] {
		case 1:
			j := strings.IndexByte(f[i+1:], 2)
			if j < 0 {
				return "", false
			}
			content := f[i+1 : i+1+j]
			if strings.ContainsAny(content, "\x01\x03") {
				return "", false
			}
			b.WriteString(wrapUnsafe(content))
			i += j + 2
		case 2:
			return "", false
		case 3:
			j := strings.IndexByte(f[i+1:], 3)
			if j < 0 {
				return "", false
			}
			id := 0
			for _, c := range f[i+1 : i+1+j] {
				if c < '0' || c > '9' {
					return "", false
				}
				id = id*10 + int(c-'0')
			}
			if id >= len(reds) {
				return "", false
			}
			b.WriteString(reds[id])
			i += j + 2
		default:
			j := i
			for j < len(f) && f[j] > 3 {
				j++
			}
			if j == i {
				j = i + 1
			}
			b.WriteString(esc(f[i:j]))
			i = j
		}
	}
	return b.String(), true
}

// ---- domain: which verbs are valid for which operand -------------------------------

func verbsOfKind(k string) string {
	switch k {
	case "bool", "NBool":
		return "tv"
	case "float32", "float64", "NFloat", "SVFloat", "ISafeFloat":
		return "beEfFgGxXv"
	case "string", "NStr", "Stringer", "PStringer", "Err", "StdErr", "WrapErr", "PErr", "ErrStringer", "GoStrStringer", "SVStr", "SVStringer", "ISafeString", "RegStr", "SafeMsg":
		return "sqxXv"
	case "SVBytes", "ISafeBytes":
		return "sqxXvd"
	case "Fmter", "PadFmter", "ErrFmter", "FmtFlags", "SafeFmt", "SafeFmtErr":
		return "abcdefgijklmnoqrstuvxyzABCDEFGHIJKLMNOQRSUVWXYZ!"
	case "RS", "RB", "Builder", "PBuilder":
		return "abcdefgijklmnoqrstuvxyzABCDEFGHIJKLMNOQRSUVWXYZ!"
	case "nil":
		return "v"
	case "RegDur":
		return "sqxXvdbo" // String method for the string verbs, integer otherwise
	}
	if intOfKind(k, 0) != nil || k == "SVInt" || k == "ISafeInt" || k == "ISafeUint" || k == "RegInt" || k == "ISafeRune" || k == "ISafeByte" {
		return "bcdoOqxXUv"
	}
	return ""
}

// validVerbs returns the verbs valid for every leaf of d ("" when d has a
// leaf outside the domain).
func validVerbs(d *D) string {
	switch d.K {
	case "RVFieldT":
		switch rvFieldTIndex(d) {
		case 0, 1:
			return verbsOfKind("RS")
		case 2:
			return "sqxXv"
		case 3, 6:
			return "bcdoOqxXUv" // read-only: no String method is called
		}
		return ""
	case "Safe", "Unsafe", "slice", "arr", "S2", "SEmbed", "SVStruct", "SVSlice", "ptr", "RValue", "RegStruct", "strgs", "RVIdx", "RVIdxS", "RVFieldI":
		vs := "abcdefgijklmnoqrstuvxyzABCDEFGHIJKLMNOQRSUVWXYZ!"
		if d.K == "RVFieldI" {
			switch k := d.Sub[0].K; {
			case k == "RSlit" || k == "RBlit":
				return vs
			case k == "RegDur":
				return "bcdoOqxXUv"
			}
		}
		if d.K == "RegStruct" {
			vs = intersect(vs, "bcdoOqxXUv") // the int field
		}
		for _, s := range d.Sub {
			vs = intersect(vs, validVerbs(s))
		}
		return vs
	case "map":
		vs := "sqxXv" // string keys
		for i := 1; i < len(d.Sub); i += 2 {
			vs = intersect(vs, validVerbs(d.Sub[i]))
		}
		return vs
	}
	return verbsOfKind(d.K)
}

func intersect(a, b string) string {
	var out []byte
	for i := 0; i < len(a); i++ {
		if strings.IndexByte(b, a[i]) >= 0 {
			out = append(out, a[i])
		}
	}
	return string(out)
}

// sharpOK: '#' with 'v' switches to Go syntax, where values printed through
// String/Error are printed structurally instead: outside the bracket domain.
func sharpVOK(d *D) bool {
	switch d.K {
	case "Stringer", "PStringer", "Err", "StdErr", "WrapErr", "PErr", "ErrStringer", "RegStr", "RegDur", "SVStringer", "ptr", "RValue", "strgs", "RVIdx", "RVIdxS", "RVFieldI":
		return false
	}
	for _, s := range d.Sub {
		if !sharpVOK(s) {
			return false
		}
	}
	return true
}

// ---- generator for the C05 domain --------------------------------------------------------

var c05leafKinds = []string{"bool", "int", "int8", "uint8", "int64", "uint64", "uintptr", "float32", "float64", "string", "NInt", "NStr", "NBool", "NFloat", "NUint8",
	"Stringer", "PStringer", "Err", "StdErr", "PErr", "ErrStringer", "GoStrStringer", "Fmter", "PadFmter", "ErrFmter", "FmtFlags", "nil",
	"SVInt", "SVStr", "SVFloat", "SVBytes", "SVStringer", "ISafeString", "ISafeInt", "ISafeUint", "ISafeFloat", "ISafeRune", "ISafeByte", "ISafeBytes",
	"RegInt", "RegStr", "RegDur"}

func c05opts() genOpts {
	return genOpts{invalidUTF8: false, redactKinds: true, panics: false, safeKinds: true, maxDepth: 2}
}

func c05payload(r *Rng) string {
	parts := []string{"a", "bc", " ", "\n", "\n\n", startM, endM, redactedM, "?", "é", "日", "\"", "\\", "%", "0", "x=1", "", "nº", "‰", "※", "☺", "⁹"}
	n := r.Intn(4)
	var b strings.Builder
	for i := 0; i < n; i++ {
		b.WriteString(parts[r.Intn(len(parts))])
	}
	return b.String()
}

func c05leaf(r *Rng) *D {
	k := c05leafKinds[r.Intn(len(c05leafKinds))]
	d := leafOfKind(r, k, c05opts())
	switch k {
	case "string", "NStr", "Stringer", "PStringer", "Err", "StdErr", "PErr", "ErrStringer", "GoStrStringer", "Fmter", "PadFmter", "ErrFmter", "SVStr", "SVBytes", "SVStringer", "ISafeString", "ISafeBytes", "RegStr":
		d.S = QS(c05payload(r))
	case "ISafeRune":
		d.N = []int64{'a', 0x2039, '\n', 0xe9}[r.Intn(4)]
	case "ISafeByte":
		d.N = []int64{'a', '\n', '?'}[r.Intn(3)]
	}
	return d
}

func c05value(r *Rng, depth int, top bool) *D {
	if depth <= 0 || r.Chance(45, 100) {
		return c05leaf(r)
	}
	sub := func() *D { return c05value(r, depth-1, false) }
	c := r.Intn(100)
	switch {
	case c < 14:
		n := r.Intn(4)
		d := &D{K: "slice"}
		for i := 0; i < n; i++ {
			d.Sub = append(d.Sub, sub())
		}
		return d
	case c < 16:
		return dSub("arr", sub(), sub())
	case c < 18:
		// a slice typed with a non-empty interface, holding values with a String method
		d := &D{K: "strgs"}
		for i, n := 0, 1+r.Intn(3); i < n; i++ {
			k := []string{"Stringer", "PStringer", "RegStr", "RegDur", "SVStringer", "GoStrStringer", "ErrStringer"}[r.Intn(7)]
			l := leafOfKind(r, k, c05opts())
			l.S = QS(c05payload(r))
			d.Sub = append(d.Sub, l)
		}
		return d
	case c < 28:
		d := &D{K: "map"}
		used := map[string]bool{}
		for i, n := 0, r.Intn(4); i < n; i++ {
			k := []string{"a", "b", "k1", "k\n", startM, "é", " q", ""}[r.Intn(8)]
			if used[k] {
				continue
			}
			used[k] = true
			d.Sub = append(d.Sub, dS("string", k), sub())
		}
		return d
	case c < 38:
		return dSub("S2", sub(), sub())
	case c < 42:
		return dSub("SEmbed", sub(), sub(), sub())
	case c < 46:
		return dSub("SVStruct", sub(), sub())
	case c < 49:
		return dSub("SVSlice", sub(), sub())
	case c < 52:
		return &D{K: "RegStruct", N: randInt(r), Sub: []*D{sub()}}
	case c < 56 && top:
		// a pointer to a plain struct, to a struct of a registered type, to a SafeValue struct, to a slice
		switch r.Intn(4) {
		case 0:
			return dSub("ptr", &D{K: "RegStruct", N: randInt(r), Sub: []*D{sub()}})
		case 1:
			return dSub("ptr", dSub("SVStruct", sub(), sub()))
		case 2:
			return dSub("ptr", dSub("slice", sub(), sub()))
		}
		return dSub("ptr", dSub("S2", sub(), sub()))
	case c < 58 && top:
		return dSub("RValue", sub())
	case c < 59 && top:
		// reflect.Value operands of the other shapes a struct walker produces
		switch r.Intn(4) {
		case 3:
			k := []string{"Stringer", "PStringer", "RegStr", "RegDur", "SVStringer", "GoStrStringer", "ErrStringer"}[r.Intn(7)]
			l := leafOfKind(r, k, c05opts())
			l.S = QS(c05payload(r))
			return dSub("RVIdxS", l)
		case 0:
			return dSub("RVIdx", sub())
		case 1:
			ks := []string{"bool", "int", "uint8", "int64", "float64", "string", "NInt", "NStr", "NFloat", "nil", "RegInt", "RegStr", "RegDur", "RSlit", "RBlit"}
			k := ks[r.Intn(len(ks))]
			var l *D
			if k == "RSlit" || k == "RBlit" {
				l = dS(k, string(redact.Sprint(c05payload(r), redact.Safe(c05payload(r)))))
			} else {
				l = leafOfKind(r, k, c05opts())
				if k == "string" || k == "NStr" || k == "RegStr" {
					l.S = QS(c05payload(r))
				}
			}
			return &D{K: "RVFieldI", Sub: []*D{l}}
		default:
			return &D{K: "RVFieldT", N: 7*int64(r.Intn(3000)) + []int64{0, 1, 2, 3, 6}[r.Intn(5)], S: QS(c05payload(r))}
		}
	case c < 70:
		return dSub("Safe", sub())
	case c < 80:
		in := sub()
		if containsKind(in, "RS", "RB", "Builder", "PBuilder", "SafeFmt", "SafeFmtErr", "SafeMsg") {
			return in // these under Unsafe are C06's business (verb handling differs by design)
		}
		return dSub("Unsafe", in)
	case c < 86:
		d := &D{K: []string{"RS", "RB", "Builder"}[r.Intn(3)]}
		for i, n := 0, 1+r.Intn(2); i < n; i++ {
			d.Sub = append(d.Sub, c05leaf(r))
		}
		return d
	case c < 94:
		d := &D{K: "SafeFmt"}
		for i, n := 0, 1+r.Intn(4); i < n; i++ {
			d.Sub = append(d.Sub, c05step(r, depth))
		}
		return d
	case c < 97:
		return dS("SafeMsg", c05payload(r))
	}
	return c05leaf(r)
}

func containsKind(d *D, ks ...string) bool {
	for _, k := range ks {
		if d.K == k {
			return true
		}
	}
	for _, s := range d.Sub {
		if containsKind(s, ks...) {
			return true
		}
	}
	return false
}

func c05step(r *Rng, depth int) *D {
	switch r.Intn(10) {
	case 0, 1:
		return dS("sSafeString", c05payload(r))
	case 2:
		return dN("sSafeInt", randInt(r))
	case 3:
		return dN("sSafeRune", []int64{'a', 0x2039, '\n', 0xe9}[r.Intn(4)])
	case 4, 5:
		return dS("sUnsafeString", c05payload(r))
	case 6:
		return dS("sWrite", c05payload(r))
	case 7:
		d := &D{K: "sPrint"}
		for i, n := 0, 1+r.Intn(2); i < n; i++ {
			d.Sub = append(d.Sub, c05value(r, depth-1, false))
		}
		return d
	case 8:
		d := &D{K: "sPrintf"}
		var f strings.Builder
		for i, n := 0, 1+r.Intn(2); i < n; i++ {
			v := c05value(r, depth-1, false)
			f.WriteString([]string{"x", "=", " ", "", startM}[r.Intn(5)])
			f.WriteString("%v")
			d.Sub = append(d.Sub, v)
		}
		d.S = QS(f.String())
		return d
	default:
		return &D{K: "sVerb"}
	}
}

// c05call builds a call whose verbs are valid for their operands.
func c05call(r *Rng) *Call {
	c := &Call{}
	if r.Chance(1, 6) {
		c.Sp = true
		for i, n := 0, 1+r.Intn(3); i < n; i++ {
			c.Args = append(c.Args, c05value(r, 2, true))
		}
		return c
	}
	for i, n := 0, 1+r.Intn(3); i < n; i++ {
		v := c05value(r, 2, true)
		vs := validVerbs(v)
		if vs == "" {
			vs = "v"
		}
		d := Dir{Lit: []string{"", "x", "lit ", "=", startM, "\n", "é", "%%", "nº", "‰", "ok ☺", "⁹"}[r.Intn(12)]}
		d.Verb = string(vs[r.Intn(len(vs))])
		if r.Chance(1, 2) {
			d.Verb = "v"
		}
		d.Flags = []string{"", "", "+", "-", "#", " ", "0", "+#", "-#"}[r.Intn(9)]
		if strings.Contains(d.Flags, "#") && d.Verb == "v" && !sharpVOK(v) {
			d.Flags = strings.ReplaceAll(d.Flags, "#", "")
		}
		d.Width = []string{"", "", "3", "9", "*"}[r.Intn(5)]
		d.Prec = []string{"", "", ".0", ".2", ".*"}[r.Intn(5)]
		if d.Width == "*" {
			d.WArg = []int{4, -5, 11}[r.Intn(3)] // not 0: fmt.FormatString re-emits a present zero width as the '0' flag
		}
		if d.Prec == ".*" {
			d.PArg = []int{0, 2}[r.Intn(2)]
		}
		if containsKind(v, "sSafeInt", "sSafeUint", "sSafeFloat") {
			// The printer's SafeInt/SafeUint/SafeFloat render the number under
			// the flags, width and precision of the directive through which the
			// SafeFormat method was reached; the statement does not say whether
			// they should, so such scripts are only used with bare directives.
			d.Flags, d.Width, d.Prec = "", "", ""
		}
		c.Dirs = append(c.Dirs, d)
		c.Args = append(c.Args, v)
	}
	c.Tail = []string{"", ".", "\n", endM}[r.Intn(4)]
	return c
}

// ---- the check -----------------------------------------------------------------------------

func c05check(w *Worker, cfg map[string]bool, cfgName string, c *Call, idx int64) {
	format := c.format()
	if !c.Sp && hasZeroMinus(format) {
		w.Count("excluded_zero_minus", 1)
		return
	}
	bc := newBuildCtx()
	bc.registered = cfg
	// fmt side
	var exp string
	ok := true
	func() {
		defer func() {
			if r := recover(); r != nil {
				ok = false
			}
		}()
		targs := c.operands(func(d *D) interface{} { return bc.twin(d, ctxNone) })
		if bc.twinFail != "" {
			ok = false
			return
		}
		var f string
		if c.Sp {
			f = runFmt(false, true, "", targs).out
		} else {
			f = runFmt(false, false, format, targs).out
		}
		if bc.twinFail != "" { // stand-ins built lazily by a script step
			ok = false
			return
		}
		if c.Sp {
			bc.checkSprintKinds(c.Args, targs)
			if bc.twinFail != "" {
				ok = false
				return
			}
		}
		f = strings.ReplaceAll(f, "main.brkStr", "string")
		exp, ok = bracketsToRedactable(f, bc.redactables)
	}()
	if !ok {
		w.Count("no_faithful_twin("+bc.twinFail+")", 1)
		return
	}
	ro, built := runCall(routeS, c)
	w.Eval(1)
	cs := func() interface{} { return map[string]interface{}{"call": c, "registry": cfgName} }
	if !built || ro.panicked {
		w.Violate("C05 panic", "redact panicked ("+pvalString(ro.pval)+") for "+c.String(), cs())
		return
	}
	p := parse(ro.out)
	if !p.WellFormed {
		w.Violate("C05 ill-formed", "output "+q(ro.out)+" ill-formed for "+c.String(), cs())
		return
	}
	got, want := canonP(p), canon(exp)
	if got != want {
		what := "different text"
		if stripTokens(got) == stripTokens(want) {
			pw := parse(want)
			if len(safeOnly(p)) < len(safeOnly(pw)) {
				what = "over-redaction (declared-safe text inside an envelope)"
			} else {
				what = "under-redaction (unsafe text outside envelopes)"
			}
		}
		w.Violate("C05 classification", what+": redact "+q(ro.out)+" canonical "+q(got)+", instrumented fmt gives "+q(want)+" for "+c.String()+" registry="+cfgName, cs())
		return
	}
	if len(p.Env) > 0 && strings.Trim(safeOnly(p), "\n") != "" {
		w.Nontrivial(hashStrs(cfgName, format, argsKey(c)))
	}
	w.Count("compared", 1)
	if idx%50021 == 3 {
		w.Sample(map[string]interface{}{"call": c.String(), "registry": cfgName, "redact_q": q(ro.out), "expected_q": q(exp)})
	}
}

var regCatalogue = []struct {
	name string
	t    reflect.Type
}{{"RegInt", reflect.TypeOf(tRegInt(0))}, {"RegStr", reflect.TypeOf(tRegStr(""))}, {"RegDur", reflect.TypeOf(tRegDur(0))}, {"RegStruct", reflect.TypeOf(tRegStruct{})}}

// setRegistry empties the registry (tagged hook) and registers the subset.
func setRegistry(c *Ctx, mask int) (map[string]bool, string) {
	redact.VerifResetSafeTypes()
	if n := redact.VerifSafeTypeCount(); n != 0 {
		c.Inconclusive("registry reset hook did not empty the registry")
	}
	cfg := map[string]bool{}
	var names []string
	for i, e := range regCatalogue {
		if mask&(1<<i) != 0 {
			redact.RegisterSafeType(e.t)
			cfg[e.name] = true
			names = append(names, e.name)
		}
	}
	return cfg, "{" + strings.Join(names, ",") + "}"
}

// c05product: leaf x verb x flags x wp x position x wrapper.
func c05product() []*Call {
	var calls []*Call
	rich := "s" + startM + "e\nc" + endM + "é"
	var leaves []*D
	for _, k := range c05leafKinds {
		d := &D{K: k, S: QS(rich), N: 77, F: 2.5}
		if k == "FmtFlags" {
			d.S = "fl"
		}
		if k == "ISafeRune" || k == "ISafeByte" {
			d.N = 'a'
		}
		leaves = append(leaves, d)
	}
	positions := []func(*D) *D{
		func(l *D) *D { return l },
		func(l *D) *D { return dSub("slice", dN("int", 1), l, dS("string", "z")) },
		func(l *D) *D { return &D{K: "map", Sub: []*D{dS("string", "k"), l, dS("string", "m\n"), dN("int", 2)}} },
		func(l *D) *D { return dSub("S2", l, dS("string", "z")) },
		func(l *D) *D { return dSub("ptr", dSub("S2", dS("string", "z"), l)) },
		func(l *D) *D { return dSub("ptr", &D{K: "RegStruct", N: 5, Sub: []*D{l}}) },
		func(l *D) *D { return dSub("RValue", l) },
		func(l *D) *D { return dSub("RVIdx", l) },
		func(l *D) *D {
			switch l.K {
			case "Stringer", "PStringer", "RegStr", "RegDur", "SVStringer", "GoStrStringer", "ErrStringer":
				return dSub("RVIdxS", l)
			}
			return l
		},
		func(l *D) *D {
			if structuralLeaf(l.K) || l.K == "RegInt" || l.K == "RegStr" || l.K == "RegDur" || l.K == "nil" {
				return &D{K: "RVFieldI", Sub: []*D{l}}
			}
			return l
		},
		func(l *D) *D { return dSub("SEmbed", dN("int", 1), l, dSub("Safe", dS("string", "pub"))) },
		func(l *D) *D { return dSub("SVStruct", l, dS("string", "z")) },
		func(l *D) *D {
			switch l.K {
			case "Stringer", "PStringer", "RegStr", "RegDur", "SVStringer", "GoStrStringer", "ErrStringer":
				return dSub("strgs", dS("Stringer", "z"), l)
			}
			return l
		},
	}
	wrappers := []func(*D) *D{
		func(l *D) *D { return l },
		func(l *D) *D { return dSub("Safe", l) },
		func(l *D) *D { return dSub("Unsafe", l) },
	}
	flags := []string{"", "+", "-", "#", " ", "0", "+#"}
	wps := []struct {
		w, p   string
		wa, pa int
	}{{"", "", 0, 0}, {"7", "", 0, 0}, {"*", "", -7, 0}, {"", ".2", 0, 0}, {"9", ".3", 0, 0}, {"", ".*", 0, 0}}
	for _, l := range leaves {
		for pi, pos := range positions {
			for wi, wr := range wrappers {
				var v *D
				// wrapper around the leaf inside the position, or (for pi==0) the leaf itself
				if pi == 0 {
					v = wr(l)
				} else {
					v = pos(wr(l))
				}
				_ = wi
				vs := validVerbs(v)
				for _, verb := range vs {
					for _, f := range flags {
						if strings.Contains(f, "#") && verb == 'v' && !sharpVOK(v) {
							continue
						}
						for _, wp := range wps {
							calls = append(calls, &Call{Dirs: []Dir{{Lit: "p=", Flags: f, Width: wp.w, Prec: wp.p, Verb: string(verb), WArg: wp.wa, PArg: wp.pa}}, Tail: ";", Args: []*D{v}})
						}
					}
				}
			}
		}
	}
	return calls
}

func runC05(c *Ctx) {
	masks := []int{0, 15, 1, 2, 4, 8}
	if c.thorough() {
		masks = nil
		for m := 0; m < 16; m++ {
			masks = append(masks, m)
		}
	}
	product := c05product()
	c.AddCount("product_calls_per_configuration", int64(len(product)))
	nRand := c.pick(250000, 2500000)
	for _, mask := range masks {
		cfg, name := setRegistry(c, mask)
		c05pointers(c, mask&1 != 0)
		c05badVerbContainers(c, cfg)
		c05unexported(c, cfg)
		c.ParallelFor(int64(len(product)), func(w *Worker, i int64) { c05check(w, cfg, name, product[i], i) })
		c.ParallelFor(nRand, func(w *Worker, i int64) {
			r := newRng(c.Seed, 0xc05, uint64(mask), uint64(i))
			c05check(w, cfg, name, c05call(r), i)
			w.Count("random_calls", 1)
		})
		c.AddCount("configurations", 1)
	}
	c05builtinRegistered(c)
	redact.VerifResetSafeTypes()
	c.res.Assumptions = []string{"go1.23.5 fmt (incl. fmt.FormatString) renders the instrumented operands", "domain per the quantifier: verbs valid for their operands; leaves = scalars, strings and values printed through their own method; complex numbers, byte slices under %v/%d and unexported fields are left to C02/C04; %p/%T are asserted on a fixed list of pointer-like operands (declared safe by type, by Safe(), by registration, or not at all) x 44 directives"}
}
