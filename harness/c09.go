package main

// C09 — SafeWriter contract: each payload lands once, in order, on its own side.

import (
	"fmt"
	"strings"
	"sync"

	"github.com/cockroachdb/redact"
)

func init() {
	register("C09", &monitor{
		run: runC09,
		rule: "all SafeWriter call histories up to the length bound over 17 methods x payload classes (exhaustive, unique letter per call position), plus random histories of up to 40 calls, " +
			"each applied to StringBuilder, the Sprintfn printer, a SafeFormat printer and ManualBuffer; oracle: canonical output == 6-line reference model (valid payloads), well-formed/line-safe/sides respected (all payloads); " +
			"non-trivial = at least two calls with at least one unsafe-side and one safe-side piece or a line feed/marker in a payload; distinct = distinct histories",
	})
}

type implRun struct {
	name string
	run  func([]Op) (string, interface{})
}

var c09impls = []implRun{
	{"StringBuilder", runOnBuilder},
	{"Sprintfn", runOnSprintfn},
	{"SafeFormat", runOnSafeFormat},
	{"ManualBuffer", runOnManual},
}

func historyNontrivial(h []Op) bool {
	if len(h) < 2 {
		return false
	}
	safe, unsafe, special := false, false, false
	for _, o := range h {
		if strings.HasPrefix(o.M, "Safe") || o.A == "safe" {
			safe = true
		} else {
			unsafe = true
		}
		if strings.ContainsAny(o.S, "\n") || hasMarker(o.S) || o.R == '\n' || o.R == 0x2039 || o.R == 0x203a || o.B == '\n' {
			special = true
		}
	}
	return (safe && unsafe) || special
}

// flaggedDirectives: directives with flags, width and precision through which a SafeFormat method is reached,
// with the directives under which fmt renders SafeInt/SafeUint and SafeFloat payloads in the known-finding model
// (the printer passes 'd' resp. 'v' to its integer and float formatters; under the verb v the '+' and '#' flags
// mean struct-field and Go-syntax mode and are not sign/alternate flags).
var flaggedDirectives = []struct{ dir, intDir, floatDir string }{
	{"%+8.3v", "%8.3d", "%8.3v"},
	{"%#v", "%d", "%v"},
	{"%#x", "%#d", "%#g"},
	{"%-6.2q", "%-6.2d", "%-6.2g"},
	{"%+d", "%+d", "%+g"},
	{"%06v", "%06d", "%06v"},
	{"% s", "% d", "% g"},
}

func runOnSafeFormatFlagged(dir string, h []Op) (out string, pan interface{}) {
	defer func() { pan = recover() }()
	return string(redact.Sprintf(dir, histFormatter{h})), nil
}

// modelHistoryNumericFlags: the reference model with the one deviation recorded as
// a known finding: the printer's SafeInt/SafeUint/SafeFloat render the number under
// the flags, width and precision of the directive through which SafeFormat was reached.
func modelHistoryNumericFlags(k int, h []Op) string {
	fd := flaggedDirectives[k]
	var b strings.Builder
	for _, o := range h {
		switch o.M {
		case "SafeInt":
			b.WriteString(fmt.Sprintf(fd.intDir, o.I))
			continue
		case "SafeUint":
			b.WriteString(fmt.Sprintf(fd.intDir, uint64(o.I)))
			continue
		case "SafeFloat":
			b.WriteString(fmt.Sprintf(fd.floatDir, o.F))
			continue
		}
		for _, p := range modelPieces(o) {
			switch p.kind {
			case 0:
				b.WriteString(esc(p.text))
			case 1:
				b.WriteString(wrapUnsafe(p.text))
			default:
				b.WriteString(p.text)
			}
		}
	}
	return canon(b.String())
}

// c09check runs one history on every implementation and applies the oracles.
func c09check(w *Worker, h []Op) {
	valid := historyValid(h)
	var model string
	if valid {
		model = modelHistory(h)
	}
	cs := func() interface{} { return map[string]interface{}{"history": historyString(h), "ops": h} }
	// The same script reached through a directive with flags (valid histories only).
	for k := range flaggedDirectives {
		// the first directive always; every directive for single calls; one more chosen by the history otherwise
		if !valid || !(k == 0 || len(h) == 1 || int(hashStr(historyString(h))%uint64(len(flaggedDirectives))) == k) {
			continue
		}
		flaggedDirective := flaggedDirectives[k].dir
		out, pan := runOnSafeFormatFlagged(flaggedDirective, h)
		w.Eval(1)
		if pan != nil {
			w.Violate("C09 panic SafeFormat(flagged)", "Sprintf("+flaggedDirective+", script) panicked: "+sprint(pan)+" history="+historyString(h), cs())
		} else if p := parse(out); !p.WellFormed || !p.LineSafe {
			w.Violate("C09 ill-formed SafeFormat(flagged)", "Sprintf("+flaggedDirective+", script) output "+q(out)+" history="+historyString(h), cs())
		} else if got := canonP(p); got != model {
			if got == modelHistoryNumericFlags(k, h) {
				w.Violate("C09 numeric safe emitters honour the directive's flags", "Sprintf("+flaggedDirective+", script): "+q(out)+" history="+historyString(h), cs())
			} else {
				w.Violate("C09 model SafeFormat(flagged)", "Sprintf("+flaggedDirective+", script) gives "+q(out)+" canonical "+q(got)+" want "+q(model)+" history="+historyString(h), cs())
			}
		}
	}
	// String() of a builder or buffer is its result with markers stripped (the other view of the same content)
	func() {
		defer func() { recover() }() // panics are reported by the implementation runs below
		var b redact.StringBuilder
		t := targetOf(&b)
		var mb redact.ManualBuffer
		for _, o := range h {
			applyOp(t, o)
			applyManual(&mb, o)
		}
		w.Eval(2)
		if sv, want := b.String(), b.RedactableString().StripMarkers(); sv != want {
			w.Violate("C09 string-view StringBuilder", "StringBuilder.String()="+q(sv)+" but RedactableString().StripMarkers()="+q(want)+" history="+historyString(h), cs())
		}
		if sv, want := mb.String(), mb.RedactableString().StripMarkers(); sv != want {
			w.Violate("C09 string-view ManualBuffer", "ManualBuffer.String()="+q(sv)+" but RedactableString().StripMarkers()="+q(want)+" history="+historyString(h), cs())
		}
	}()
	for _, im := range c09impls {
		out, pan := im.run(h)
		w.Eval(1)
		if pan != nil {
			w.Violate("C09 panic "+im.name, im.name+" panicked: "+sprint(pan)+" history="+historyString(h), cs())
			continue
		}
		p := parse(out)
		if !p.WellFormed {
			w.Violate("C09 ill-formed "+im.name, im.name+" output "+q(out)+" is ill-formed ("+p.Err+") history="+historyString(h), cs())
			continue
		}
		if !p.LineSafe {
			w.Violate("C09 line-unsafe "+im.name, im.name+" output "+q(out)+" has a line feed inside an envelope; history="+historyString(h), cs())
			continue
		}
		if valid {
			if got := canonP(p); got != model {
				what := "canonical output differs from the reference model"
				if refStrip(p) != stripModel(h) {
					what = "stripped output is not the concatenation of the payloads in call order"
				} else if safeOnly(p) != safeModel(h) {
					what = "text outside envelopes is not exactly the safe payloads plus the line feeds of the unsafe ones"
				}
				w.Violate("C09 model "+im.name, im.name+": "+what+": got "+q(out)+" canonical "+q(got)+" want "+q(model)+" history="+historyString(h), cs())
			}
			continue
		}
		// Arbitrary payloads: sides must still be respected for the calls whose
		// payload carries a position letter (histories of at most 26 calls).
		if len(h) <= 26 {
			so := safeOnly(p)
			for i, o := range h {
				letter := string(rune('A' + i%26))
				if !strings.Contains(o.S, letter) || o.M == "Print" || o.M == "Printf" {
					continue
				}
				onSafeSide := strings.HasPrefix(o.M, "Safe")
				if onSafeSide != strings.Contains(so, letter) {
					w.Violate("C09 side "+im.name, im.name+": payload of call "+itoa(i)+" ("+opString(o)+") is on the wrong side in "+q(out)+" history="+historyString(h), cs())
				}
			}
		}
	}
}

func runC09(c *Ctx) {
	maxLen := int(c.pick(2, 3))
	// Exhaustive short histories.
	ops := make([][]Op, maxLen)
	for pos := range ops {
		ops[pos] = allOps(pos, true)
	}
	n := int64(len(ops[0]))
	var total int64
	pow := int64(1)
	var offs []int64
	for l := 1; l <= maxLen; l++ {
		pow *= n
		offs = append(offs, total)
		total += pow
	}
	var stMu sync.Mutex
	states := map[uint64]struct{}{}
	c.ParallelFor(total, func(w *Worker, i int64) {
		l := 0
		for l+1 < len(offs) && offs[l+1] <= i {
			l++
		}
		j := i - offs[l]
		h := make([]Op, l+1)
		for k := 0; k <= l; k++ {
			h[k] = ops[k][j%n]
			j /= n
		}
		c09check(w, h)
		if historyNontrivial(h) {
			w.Nontrivial(hashStr(historyString(h)))
		}
		// Distinct hidden buffer states visited (evidence only, never a verdict).
		if i%7 == 0 {
			local := bufferStatesOf(h)
			stMu.Lock()
			for _, s := range local {
				states[s] = struct{}{}
			}
			stMu.Unlock()
		}
		if i%40009 == 17 {
			out, _ := runOnBuilder(h)
			w.Sample(map[string]string{"history": historyString(h), "StringBuilder_q": q(out)})
		}
	})
	c.AddCount("exhaustive_histories", total)
	c.AddCount("op_alphabet", n)
	// Thorough tier: all histories of 4 calls over a reduced alphabet (per method
	// one ordinary, one line-feed/marker and one invalid payload).
	if c.thorough() {
		var red [4][]Op
		for pos := 0; pos < 4; pos++ {
			for _, m := range opMethods {
				v, inv := opVariants(m, pos)
				red[pos] = append(red[pos], v[0])
				if len(v) > 4 {
					red[pos] = append(red[pos], v[4])
				}
				if len(inv) > 0 {
					red[pos] = append(red[pos], inv[0])
				}
			}
		}
		m := int64(len(red[0]))
		c.ParallelFor(m*m*m*m, func(w *Worker, i int64) {
			h := []Op{red[0][i%m], red[1][(i/m)%m], red[2][(i/(m*m))%m], red[3][i/(m*m*m)]}
			c09check(w, h)
			if historyNontrivial(h) {
				w.Nontrivial(hashStr(historyString(h)))
			}
		})
		c.AddCount("exhaustive_histories_len4_reduced_alphabet", m*m*m*m)
	}
	// Marker assembly: the three bytes of a marker delivered by three
	// separate single-byte calls (every combination of 7 carriers), in every
	// combination of surrounding context.
	carriers := []string{"SafeByte", "UnsafeByte", "WriteByte", "SafeBytes", "SafeString", "UnsafeString", "Write"}
	ctxs := [][]Op{nil, {{M: "SafeString", S: "P", V: true}}, {{M: "UnsafeString", S: "Q", V: true}}}
	var asm [][]Op
	for _, last := range []byte{0xb9, 0xba} {
		seq := []byte{0xe2, 0x80, last}
		for a := 0; a < 343; a++ {
			for _, pre := range ctxs {
				for _, post := range ctxs {
					var h []Op
					h = append(h, pre...)
					x := a
					for k := 0; k < 3; k++ {
						m := carriers[x%7]
						x /= 7
						if strings.HasSuffix(m, "Byte") {
							h = append(h, Op{M: m, B: seq[k]})
						} else {
							h = append(h, Op{M: m, S: string([]byte{seq[k]})})
						}
					}
					h = append(h, post...)
					asm = append(asm, h)
				}
			}
		}
	}
	c.ParallelFor(int64(len(asm)), func(w *Worker, i int64) {
		c09check(w, asm[i])
		w.Nontrivial(hashStr(historyString(asm[i])))
		w.Count("assembly_histories", 1)
	})
	// Random long histories.
	nRand := c.pick(400000, 6000000)
	c.ParallelFor(nRand, func(w *Worker, i int64) {
		r := newRng(c.Seed, 0xc09, uint64(i))
		pInv := 0
		if r.Chance(1, 3) {
			pInv = 20
		}
		h := randHistory(r, 40, pInv)
		if r.Chance(1, 4) {
			// An unrelated earlier call on a printer of the same pool: the same kind of
			// script run under a Safe()/Unsafe() wrapper (its result is C06's business,
			// not asserted here). The histories below must not be affected by it.
			func() {
				defer func() { recover() }()
				pre := randHistory(r, 6, 0)
				if r.Bool() {
					_ = redact.Sprint(redact.Safe(histFormatter{pre}))
				} else {
					_ = redact.Sprintf("%v|%v", redact.Unsafe(histFormatter{pre}), redact.Safe(histFormatter{pre}))
				}
			}()
			w.Count("histories_after_wrapped_script", 1)
		}
		c09check(w, h)
		if historyNontrivial(h) {
			w.Nontrivial(hashStr(historyString(h)))
		}
		w.Count("random_histories", 1)
		if i%30011 == 5 {
			out, _ := runOnSprintfn(h)
			w.Sample(map[string]string{"history": historyString(h), "Sprintfn_q": q(out)})
		}
	})
	c.Extra("distinct_buffer_states_visited", len(states))
	c.res.Exhaustive = true
	c.res.Bound = "every history of at most " + itoa(maxLen) + " calls over an alphabet of " + itoa(int(n)) + " (method, payload class) pairs, on 4 implementations"
}

// bufferStatesOf replays h on a StringBuilder and returns the classes of the
// hidden buffer states after each call (tagged accessor; evidence only).
func bufferStatesOf(h []Op) (out []uint64) {
	defer func() { recover() }()
	var b redact.StringBuilder
	t := targetOf(&b)
	for _, o := range h {
		applyOp(t, o)
		mode, open, valid, l, _ := b.VerifState()
		pend := l - valid
		if pend > 3 {
			pend = 3
		}
		tail := ""
		if s := string(b.RedactableBytes()); len(s) > 0 {
			k := len(s) - 3
			if k < 0 {
				k = 0
			}
			tail = s[k:]
		}
		cls := 0
		switch {
		case strings.HasSuffix(tail, startM):
			cls = 1
		case strings.HasSuffix(tail, endM):
			cls = 2
		case strings.HasSuffix(tail, "\n"):
			cls = 3
		case len(tail) > 0 && tail[len(tail)-1] >= 0x80:
			cls = 4
		case len(tail) > 0:
			cls = 5
		}
		o := uint64(0)
		if open {
			o = 1
		}
		out = append(out, uint64(mode)|o<<4|uint64(pend)<<8|uint64(cls)<<12)
	}
	return out
}
