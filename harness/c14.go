package main

// C14 — format forwarding reproduces the active directive exactly.
// Exhaustive over the directive space in both tiers.

import (
	"errors"
	"fmt"
	"strings"

	"github.com/cockroachdb/redact"
)

func init() {
	register("C14", &monitor{
		run: runC14,
		rule: "every directive in 32 flag subsets x 7 width forms x 7 precision forms x 62 verbs (52 ASCII letters + 10 others, four of which share their low byte or low 16 bits with a letter), under the standard fmt.State and under redact's printer as fmt.State: " +
			"(a) MakeFormat round trip through a capturing Formatter, (b) under fmt, Safe(x)/Unsafe(x)/a forwarding Formatter print exactly like x for 14 operand kinds; " +
			"non-trivial = the directive carries a flag, width or precision and reached the formatter; distinct = distinct (directive, state implementation) pairs",
	})
}

type dirState struct {
	plus, minus, sharp, space, zero bool
	wid                             int
	widOK                           bool
	prec                            int
	precOK                          bool
	verb                            rune
	called                          bool
}

func (d dirState) norm() dirState {
	if d.wid == 0 {
		d.widOK = false // a present width of 0 and an absent width are the same width
	}
	return d
}

func (d dirState) String() string {
	return fmt.Sprintf("{+%v -%v #%v sp%v 0%v w=%d/%v p=%d/%v verb=%q}", d.plus, d.minus, d.sharp, d.space, d.zero, d.wid, d.widOK, d.prec, d.precOK, d.verb)
}

func readState(s fmt.State, verb rune) dirState {
	d := dirState{plus: s.Flag('+'), minus: s.Flag('-'), sharp: s.Flag('#'), space: s.Flag(' '), zero: s.Flag('0'), verb: verb, called: true}
	d.wid, d.widOK = s.Width()
	d.prec, d.precOK = s.Precision()
	return d
}

// capture records the directive it is formatted under and, at level 0,
// forwards it with MakeFormat to a second capture through the same kind of printer.
type capture struct {
	st     *dirState
	justV  *bool
	format *string
	inner  *dirState
	useRed bool
}

func (c capture) Format(s fmt.State, verb rune) {
	*c.st = readState(s, verb)
	if c.inner == nil {
		return
	}
	jv, f := redact.MakeFormat(s, verb)
	*c.justV, *c.format = jv, f
	in := capture{st: c.inner}
	if c.useRed {
		_ = redact.Sprintf(f, in)
	} else {
		_ = fmt.Sprintf(f, in)
	}
}

// captureSF is a SafeFormatter that writes through its SafePrinter first (nested Print/Printf, the emitters) and
// reads the directive and calls MakeFormat afterwards: what it sees must still be the directive it was reached through.
type captureSF struct {
	before, after *dirState
	format        *string
	inner         *dirState
	pre           int
}

func (c captureSF) SafeFormat(p redact.SafePrinter, verb rune) {
	*c.before = readState(p, verb)
	switch c.pre {
	case 1:
		p.Print("x")
	case 2:
		p.Printf("%5d", 1)
	case 3:
		p.SafeString("s")
		p.UnsafeString("u")
		p.SafeInt(3)
	default:
		p.Print(1, "a")
		p.Print(redact.Safe(2))
	}
	*c.after = readState(p, verb)
	_, f := redact.MakeFormat(p, verb)
	*c.format = f
	_ = redact.Sprintf(f, capture{st: c.inner})
}

// flagPrinter prints the directive it sees (width 0 and absent width alike).
type flagPrinter struct{ tag string }

func (p flagPrinter) Format(s fmt.State, verb rune) {
	fmt.Fprint(s, p.tag, readState(s, verb).norm().String())
}

// forwarder re-prints its content with the reproduced format.
type forwarder struct{ v interface{} }

func (f forwarder) Format(s fmt.State, verb rune) {
	jv, format := redact.MakeFormat(s, verb)
	if jv {
		fmt.Fprint(s, f.v)
	} else {
		fmt.Fprintf(s, format, f.v)
	}
}

type c14ptrFmter struct{ tag string }

func (p *c14ptrFmter) Format(s fmt.State, verb rune) {
	fmt.Fprint(s, p.tag, readState(s, verb).norm().String()) // dereferences its receiver
}

type c14stringer struct{ s string }

func (s c14stringer) String() string { return s.s }

type widthForm struct {
	text string
	star bool
	arg  int
}

var c14flags = []byte{'+', '-', '#', ' ', '0'}
var c14widths = []widthForm{{"", false, 0}, {"*", true, 0}, {"1", false, 0}, {"7", false, 0}, {"12", false, 0}, {"1000", false, 0}, {"*", true, -7}}
var c14precs = []widthForm{{"", false, 0}, {".", false, 0}, {".0", false, 0}, {".1", false, 0}, {".5", false, 0}, {".*", true, 3}, {".*", true, -1}}

func c14verbs() []rune {
	var v []rune
	for r := 'a'; r <= 'z'; r++ {
		v = append(v, r)
	}
	for r := 'A'; r <= 'Z'; r++ {
		v = append(v, r)
	}
	// non-ASCII verbs, among them ones that share their low byte or low 16 bits with a letter
	return append(v, '!', '_', '~', 0xe9, 0x2039, 0x1f6d1, 0x173, 0x176, 0x164, 0x10073)
}

func c14operands() []interface{} {
	x := 7
	return []interface{}{42, -7, uint8(200), 3.5, float32(-0.25), complex(1, -2), "hé y", []byte("ab\x00"), true, nil,
		errors.New("e\nrr"), c14stringer{"str‹"}, flagPrinter{"fp"}, &x, []interface{}{1, "a"}, struct{ A int }{3},
		// nil pointers whose Format method cannot run (fmt prints <nil>), a pointer to a struct, a map of structs
		(*flagPrinter)(nil), (*c14ptrFmter)(nil), &struct{ A, B int }{1, 2}, map[string]struct{ X int }{"k": {4}}, &c14ptrFmter{"pf"}}
}

func runC14(c *Ctx) {
	verbs := c14verbs()
	ops := c14operands()
	type dir struct {
		text string
		pre  []interface{} // star operands
		zm   bool          // '0' flag together with '-' (flag or negative star width)
	}
	var dirs []dir
	for fs := 0; fs < 32; fs++ {
		var fl strings.Builder
		for i, f := range c14flags {
			if fs&(1<<i) != 0 {
				fl.WriteByte(f)
			}
		}
		for _, w := range c14widths {
			for _, p := range c14precs {
				for _, v := range verbs {
					d := dir{text: "%" + fl.String() + w.text + p.text + string(v)}
					d.zm = fs&16 != 0 && (fs&2 != 0 || (w.star && w.arg < 0))
					if w.star {
						d.pre = append(d.pre, w.arg)
					}
					if p.star {
						d.pre = append(d.pre, p.arg)
					}
					dirs = append(dirs, d)
				}
			}
		}
	}
	c.AddCount("directives", int64(len(dirs)))
	c.ParallelFor(int64(len(dirs)), func(w *Worker, i int64) {
		d := dirs[i]
		bare := d.text == "%v"
		verb := []rune(d.text)[len([]rune(d.text))-1]
		// (a) round trip under both fmt.State implementations.
		for _, useRed := range []bool{false, true} {
			var outer, inner dirState
			var jv bool
			var f2 string
			cp := capture{st: &outer, justV: &jv, format: &f2, inner: &inner, useRed: useRed}
			args := append(append([]interface{}{}, d.pre...), cp)
			func() {
				defer func() {
					if r := recover(); r != nil {
						w.Violate("C14 panic", "panic "+sprint(r)+" for directive "+q(d.text), map[string]interface{}{"directive": d.text, "redact_state": useRed})
					}
				}()
				if useRed {
					_ = redact.Sprintf(d.text, args...)
				} else {
					_ = fmt.Sprintf(d.text, args...)
				}
			}()
			w.Eval(1)
			if !outer.called {
				w.Count("not_dispatched", 1) // %T, %p, %w never reach a Formatter
				continue
			}
			if !inner.called {
				w.Violate("C14 roundtrip-lost", "MakeFormat("+q(d.text)+")="+q(f2)+" did not reach the formatter again (state "+outer.String()+")",
					map[string]interface{}{"directive": d.text, "redact_state": useRed})
				continue
			}
			if outer.norm() != inner.norm() {
				w.Violate("C14 roundtrip", "directive "+q(d.text)+" seen as "+outer.String()+"; MakeFormat="+q(f2)+" re-creates "+inner.String(),
					map[string]interface{}{"directive": d.text, "redact_state": useRed})
			}
			isBareV := outer.verb == 'v' && !outer.plus && !outer.minus && !outer.sharp && !outer.space && !outer.zero && !outer.widOK && !outer.precOK
			if jv != isBareV {
				w.Violate("C14 justV", "directive "+q(d.text)+" state "+outer.String()+": justV="+sprint(jv),
					map[string]interface{}{"directive": d.text, "redact_state": useRed})
			}
			if !bare {
				h := hashStrs(d.text, sprint(useRed), sprint(d.pre))
				w.Nontrivial(h)
			}
			_ = verb
		}
		// (a') the same from a SafeFormat method that has already written through its printer.
		{
			var before, after, inner dirState
			var f2 string
			cp := captureSF{before: &before, after: &after, format: &f2, inner: &inner, pre: 1 + int(i%4)}
			func() {
				defer func() {
					if r := recover(); r != nil {
						w.Violate("C14 panic", "panic "+sprint(r)+" for directive "+q(d.text)+" (SafeFormat, writes before MakeFormat)", map[string]interface{}{"directive": d.text, "safeformat_prewrites": cp.pre})
					}
				}()
				_ = redact.Sprintf(d.text, append(append([]interface{}{}, d.pre...), cp)...)
			}()
			w.Eval(1)
			if before.called {
				cs := map[string]interface{}{"directive": d.text, "safeformat_prewrites": cp.pre}
				if before != after {
					w.Violate("C14 state-after-writes", "directive "+q(d.text)+" seen by SafeFormat as "+before.String()+", after writing through the printer (variant "+itoa(cp.pre)+") as "+after.String(), cs)
				} else if !inner.called || before.norm() != inner.norm() {
					w.Violate("C14 roundtrip", "directive "+q(d.text)+" seen by SafeFormat as "+before.String()+"; MakeFormat after writing through the printer="+q(f2)+" re-creates "+inner.String(), cs)
				}
			}
		}
		// (b) under the standard fmt package, wrappers and forwarders print like the operand.
		if verb == 'T' || verb == 'p' || verb == 'w' {
			return
		}
		for _, x := range ops {
			want := fmt.Sprintf(d.text, append(append([]interface{}{}, d.pre...), x)...)
			for k, wrapped := range []interface{}{redact.Safe(x), redact.Unsafe(x), forwarder{x}, redact.Safe(redact.Unsafe(x))} {
				got := fmt.Sprintf(d.text, append(append([]interface{}{}, d.pre...), wrapped)...)
				w.Eval(1)
				if got != want {
					w.Violate("C14 wrapper-under-fmt", fmt.Sprintf("fmt.Sprintf(%q, %s(%T %v)) = %q, direct = %q", d.text, []string{"Safe", "Unsafe", "forwarder", "Safe(Unsafe"}[k], x, x, got, want),
						map[string]interface{}{"directive": d.text, "operand": fmt.Sprintf("%T", x), "wrapper": k})
				}
			}
		}
		// (b') a forwarding Formatter under redact's printer prints what a direct fmt call prints.
		zeroMinus := d.zm
		for _, x := range ops {
			if zeroMinus {
				// '0' combined with '-': fmt's semantics changed across Go releases; outside the comparison with fmt (see C04).
				w.Count("zero_minus_skipped", 1)
				break
			}
			want := esc(fmt.Sprintf(d.text, append(append([]interface{}{}, d.pre...), x)...))
			got := redact.Sprintf(d.text, append(append([]interface{}{}, d.pre...), forwarder{x})...).StripMarkers()
			w.Eval(1)
			if got != want {
				w.Violate("C14 forwarder-under-redact", fmt.Sprintf("redact.Sprintf(%q, forwarder(%T %v)) stripped = %q, fmt direct = %q", d.text, x, x, got, want),
					map[string]interface{}{"directive": d.text, "operand": fmt.Sprintf("%T", x)})
			}
		}
		if i%9001 == 5 {
			w.Sample(map[string]interface{}{"directive": d.text, "star_operands": d.pre, "fmt_of_Safe_3.5": fmt.Sprintf(d.text, append(append([]interface{}{}, d.pre...), redact.Safe(3.5))...)})
		}
	})
	runC14Contexts(c)
	c.res.Exhaustive = true
	c.res.Bound = "32 flag subsets x widths {absent,*=0,1,7,12,1000,*=-7} x precisions {absent,'.',0,1,5,*=3,*=-1} x 62 verbs; 21 operand kinds x 4 wrappers; " +
		"context family: the same flag/width/precision product x verbs {v,d,x,s,q,e} reached in 12 contexts (after an earlier directive with a width, precision, star or flags; after earlier elements of a slice, struct or map, among them zero integers); " +
		"wide family: widths/precisions {9999,10000,12345,65536,100000} x 8 flag subsets x verbs {v,d,x,s}"
	c.res.Assumptions = []string{"go1.23.5 fmt is the reference fmt.State", "a present width of 0 and an absent width are the same width (fmt has no syntax for the former other than '*')"}
}

// c14ctx is one way of reaching a directive other than as the only directive with the formatter as its only operand.
type c14ctx struct {
	name   string
	prefix string        // directives printed before the one under test
	preArg []interface{} // their operands
	wrap   func(x interface{}) interface{}
}

func c14contexts() []c14ctx {
	id := func(x interface{}) interface{} { return x }
	return []c14ctx{
		{"after-width", "%6d|", []interface{}{1}, id},
		{"after-width-prec", "%-9.4f|", []interface{}{2.5}, id},
		{"after-star", "%*d|", []interface{}{5, 1}, id},
		{"after-star-prec", "%.*f|", []interface{}{3, 1.5}, id},
		{"after-flags", "%+#x|% d|", []interface{}{3, 4}, id},
		{"after-zero-width", "%08.3d|%012s|", []interface{}{3, "s"}, id},
		{"slice-after-zero-int", "", nil, func(x interface{}) interface{} { return []interface{}{0, x} }},
		{"slice-after-mixed", "", nil, func(x interface{}) interface{} { return []interface{}{"", 0.0, uint8(0), true, x} }},
		{"struct-after-zero-int", "", nil, func(x interface{}) interface{} { return struct {
			A int
			B interface{}
		}{0, x} }},
		{"map-after-zero-key", "", nil, func(x interface{}) interface{} { return map[int]interface{}{0: x} }},
		{"slice-twice", "", nil, func(x interface{}) interface{} { return []interface{}{x, 0, x} }},
		{"after-width-in-slice", "%5v|", []interface{}{[]int{0, 1}}, func(x interface{}) interface{} { return []interface{}{int64(0), x} }},
	}
}

// seenStates records every directive state a formatter is reached with during one call.
type seenStates struct{ l *[]dirState }

func (c seenStates) Format(s fmt.State, verb rune) { *c.l = append(*c.l, readState(s, verb).norm()) }

// runC14Contexts: what a Formatter sees (and what MakeFormat reproduces) must not depend on what was printed before
// it in the same call: earlier directives with widths/precisions/flags, earlier elements of the same container.
// Reference: the standard fmt package reaching the same formatter through the same format and operands.
func runC14Contexts(c *Ctx) {
	ctxs := c14contexts()
	verbs := []rune{'v', 'd', 'x', 's', 'q', 'e'}
	type dir struct {
		text string
		pre  []interface{}
	}
	var dirs []dir
	for fs := 0; fs < 32; fs++ {
		var fl strings.Builder
		for i, f := range c14flags {
			if fs&(1<<i) != 0 {
				fl.WriteByte(f)
			}
		}
		for _, w := range c14widths {
			if fs&16 != 0 && (fs&2 != 0 || (w.star && w.arg < 0)) {
				continue // '0' with '-': outside the comparison with fmt (see C04)
			}
			for _, p := range c14precs {
				for _, v := range verbs {
					d := dir{text: "%" + fl.String() + w.text + p.text + string(v)}
					if w.star {
						d.pre = append(d.pre, w.arg)
					}
					if p.star {
						d.pre = append(d.pre, p.arg)
					}
					dirs = append(dirs, d)
				}
			}
		}
	}
	// wide family
	for _, fl := range []string{"", "-", "0", "+", "#", " ", "+0", "-#"} {
		for _, n := range []string{"9999", "10000", "12345", "65536", "100000"} {
			for _, v := range []rune{'v', 'd', 'x', 's'} {
				dirs = append(dirs, dir{text: "%" + fl + n + string(v)}, dir{text: "%" + fl + "." + n + string(v)}, dir{text: "%" + fl + n + "." + n + string(v)})
				if fl != "0" && fl != "+0" {
					dirs = append(dirs, dir{text: "%" + fl + "*.*" + string(v), pre: []interface{}{atoiMust(n), atoiMust(n)}})
				}
			}
		}
	}
	c.AddCount("context_directives", int64(len(dirs)))
	c.AddCount("contexts", int64(len(ctxs)))
	c.ParallelFor(int64(len(dirs)), func(w *Worker, i int64) {
		d := dirs[i]
		wide := len(d.text) > 8
		for _, cx := range ctxs {
			if wide && cx.prefix == "" && cx.name != "slice-after-zero-int" {
				continue
			}
			format := cx.prefix + d.text
			build := func(x interface{}) []interface{} {
				a := append([]interface{}{}, cx.preArg...)
				a = append(a, d.pre...)
				return append(a, cx.wrap(x))
			}
			cs := map[string]interface{}{"format": format, "context": cx.name}
			var ref, got []dirState
			func() {
				defer func() {
					if r := recover(); r != nil {
						w.Violate("C14 panic", "panic "+sprint(r)+" for format "+q(format)+" in context "+cx.name, cs)
					}
				}()
				_ = fmt.Sprintf(format, build(seenStates{&ref})...)
				_ = redact.Sprintf(format, build(seenStates{&got})...)
			}()
			w.Eval(1)
			if len(ref) == 0 {
				w.Count("not_dispatched", 1)
				continue
			}
			w.Nontrivial(hashStrs(format, cx.name))
			if fmt.Sprint(ref) != fmt.Sprint(got) {
				w.Violate("C14 state-in-context", fmt.Sprintf("format %q, context %s: a Formatter reached through fmt sees %v, through redact's printer %v", format, cx.name, ref, got), cs)
				continue
			}
			// MakeFormat under redact's printer in this context re-creates the state.
			var outer, inner dirState
			var jv bool
			var f2 string
			_ = redact.Sprintf(format, build(capture{st: &outer, justV: &jv, format: &f2, inner: &inner, useRed: true})...)
			w.Eval(1)
			if outer.called && (!inner.called || outer.norm() != inner.norm()) {
				w.Violate("C14 roundtrip", "format "+q(format)+" context "+cx.name+": seen as "+outer.String()+"; MakeFormat="+q(f2)+" re-creates "+inner.String(), cs)
			}
			if wide {
				// and under the standard fmt.State
				var o2, i2 dirState
				_ = fmt.Sprintf(format, build(capture{st: &o2, justV: &jv, format: &f2, inner: &i2, useRed: false})...)
				if o2.called && (!i2.called || o2.norm() != i2.norm()) {
					w.Violate("C14 roundtrip", "format "+q(format)+" context "+cx.name+" (fmt state): seen as "+o2.String()+"; MakeFormat="+q(f2)+" re-creates "+i2.String(), cs)
				}
			}
			// a forwarding formatter prints what the operand prints
			for _, x := range []interface{}{42, "hé", 2.5} {
				if wide && !(cx.name == "after-width") {
					break
				}
				want := esc(fmt.Sprintf(format, build(x)...))
				gotS := redact.Sprintf(format, build(forwarder{x})...).StripMarkers()
				w.Eval(1)
				if gotS != want {
					w.Violate("C14 forwarder-under-redact", fmt.Sprintf("context %s: redact.Sprintf(%q, forwarder(%T %v)) stripped = %s, fmt direct = %s", cx.name, format, x, x, clip14(gotS), clip14(want)), cs)
				}
				if wide {
					for k, wr := range []interface{}{redact.Safe(x), redact.Unsafe(x), forwarder{x}} {
						g := fmt.Sprintf(format, build(wr)...)
						wn := fmt.Sprintf(format, build(x)...)
						if g != wn {
							w.Violate("C14 wrapper-under-fmt", fmt.Sprintf("fmt.Sprintf(%q, %s(%T %v)) has %d bytes %s, direct %d bytes %s", format, []string{"Safe", "Unsafe", "forwarder"}[k], x, x, len(g), clip14(g), len(wn), clip14(wn)), cs)
						}
					}
				}
			}
		}
	})
}

func atoiMust(s string) int {
	n := 0
	for _, ch := range s {
		n = n*10 + int(ch-'0')
	}
	return n
}

// clip shortens a long rendering for a message, keeping both ends and the length.
func clip14(s string) string {
	if len(s) <= 120 {
		return q(s)
	}
	return q(s[:50]) + "...(" + itoa(len(s)) + " bytes)..." + q(s[len(s)-50:])
}
