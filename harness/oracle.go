package main

// Independent oracles over redactable strings: a byte-level parser, the
// canonical form used wherever a property says "up to merging of adjacent
// envelopes", the reference escape, and reference Redact/StripMarkers built
// from the parser. None of this uses the library under test or regexps.

import (
	"strings"
)

const (
	startM    = "\xe2\x80\xb9" // ‹
	endM      = "\xe2\x80\xba" // ›
	redactedM = startM + "\xc3\x97" + endM
)

// tok classifies position i of s: 1 = start marker, 2 = end marker, 0 = other.
func tok(s string, i int) int {
	if s[i] == 0xe2 && i+2 < len(s) && s[i+1] == 0x80 {
		switch s[i+2] {
		case 0xb9:
			return 1
		case 0xba:
			return 2
		}
	}
	return 0
}

// Parsed is the parser's view of a string.
type Parsed struct {
	WellFormed bool
	LineSafe   bool     // no '\n' between a start marker and its end marker
	Safe       []string // safe segments (len(Env)+1 of them when well-formed)
	Env        []string // envelope contents
	Splits     int      // envelopes closed right before a '\n' or opened right after one
	Err        string
}

func parse(s string) Parsed {
	p := Parsed{WellFormed: true, LineSafe: true}
	open := false
	segStart := 0
	for i := 0; i < len(s); {
		switch tok(s, i) {
		case 1:
			if open {
				p.WellFormed = false
				p.Err = "start marker inside an envelope"
				return p
			}
			p.Safe = append(p.Safe, s[segStart:i])
			open = true
			i += 3
			segStart = i
		case 2:
			if !open {
				p.WellFormed = false
				p.Err = "end marker outside an envelope"
				return p
			}
			p.Env = append(p.Env, s[segStart:i])
			open = false
			i += 3
			segStart = i
			if i < len(s) && s[i] == '\n' {
				p.Splits++
			}
		default:
			if open && s[i] == '\n' {
				p.LineSafe = false
			}
			i++
		}
	}
	if open {
		p.WellFormed = false
		p.Err = "unclosed envelope"
		return p
	}
	p.Safe = append(p.Safe, s[segStart:])
	return p
}

func hasMarker(s string) bool {
	return strings.Contains(s, startM) || strings.Contains(s, endM)
}

// esc replaces every marker by '?'.
func esc(s string) string {
	if !hasMarker(s) {
		return s
	}
	var b strings.Builder
	for i := 0; i < len(s); {
		if tok(s, i) != 0 {
			b.WriteByte('?')
			i += 3
		} else {
			b.WriteByte(s[i])
			i++
		}
	}
	return b.String()
}

// stripTokens removes every marker token in one byte-level pass.
func stripTokens(s string) string {
	if !hasMarker(s) {
		return s
	}
	var b strings.Builder
	for i := 0; i < len(s); {
		if tok(s, i) != 0 {
			i += 3
		} else {
			b.WriteByte(s[i])
			i++
		}
	}
	return b.String()
}

// refRedact is Redact on a well-formed string, from the parser's view.
func refRedact(p Parsed) string {
	var b strings.Builder
	for i, s := range p.Safe {
		b.WriteString(s)
		if i < len(p.Env) {
			b.WriteString(redactedM)
		}
	}
	return b.String()
}

// refStrip is StripMarkers on a well-formed string, from the parser's view.
func refStrip(p Parsed) string {
	var b strings.Builder
	for i, s := range p.Safe {
		b.WriteString(s)
		if i < len(p.Env) {
			b.WriteString(p.Env[i])
		}
	}
	return b.String()
}

// safeOnly is the output with all envelopes deleted.
func safeOnly(p Parsed) string {
	return strings.Join(p.Safe, "")
}

// canon drops empty envelopes and merges adjacent ones. Defined on
// well-formed strings; returns the input unchanged otherwise.
func canon(s string) string {
	p := parse(s)
	if !p.WellFormed {
		return s
	}
	return canonP(p)
}

func canonP(p Parsed) string {
	// Pass 1: drop empty envelopes, merging the safe neighbours.
	safe := []string{p.Safe[0]}
	var env []string
	for i, e := range p.Env {
		if e == "" {
			safe[len(safe)-1] += p.Safe[i+1]
			continue
		}
		env = append(env, e)
		safe = append(safe, p.Safe[i+1])
	}
	// Pass 2: merge envelopes separated by an empty safe segment.
	var b strings.Builder
	b.WriteString(safe[0])
	for i, e := range env {
		if i == 0 || safe[i] != "" {
			b.WriteString(startM)
		}
		b.WriteString(e)
		if i == len(env)-1 || safe[i+1] != "" {
			b.WriteString(endM)
		}
		b.WriteString(safe[i+1])
	}
	return b.String()
}

// lfOnly keeps only the line feeds of s.
func lfOnly(s string) string {
	n := strings.Count(s, "\n")
	return strings.Repeat("\n", n)
}

// wrapUnsafe is the reference envelope of an unsafe payload: escaped,
// enclosed, and split around every run of line feeds. Not canonical.
func wrapUnsafe(payload string) string {
	e := esc(payload)
	var b strings.Builder
	b.WriteString(startM)
	for i := 0; i < len(e); i++ {
		if e[i] == '\n' {
			b.WriteString(endM)
			j := i
			for j < len(e) && e[j] == '\n' {
				j++
			}
			b.WriteString(e[i:j])
			b.WriteString(startM)
			i = j - 1
		} else {
			b.WriteByte(e[i])
		}
	}
	b.WriteString(endM)
	return b.String()
}
