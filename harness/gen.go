package main

// Generators: payload strings, value descriptors, formats.

import (
	"math"
	"reflect"
	"sort"
	"strconv"
	"strings"
)

// ---- payloads -------------------------------------------------------------------

var payloadValid = []string{"a", "bc", "key", " ", "  ", "\n", "\n\n", startM, endM, "\xc3\x97", redactedM, "?", "é", "日本", "\U0001f6d1",
	"\"", "`", "\\", "\t", "\x00", "\x7f", "\x1b", "\r", "\ufffd", "\ufeff", "\u2028", "\u00ad", "a\x7fb", "%", "%d", "0", "-1", "x=1", "‹un›", "›‹", "<nil>", "Z",
	// valid runes whose encoding shares bytes with the markers (E2 80 B9 / E2 80 BA)
	"º", "¹", "‰", "※", "€", "\u0080", "к", "☺", "⁹", "₺",
	// ... or ends in the last two bytes of a marker (E3 80 BA, E1 80 BA, F0 90 80 BA, E3 80 B9)
	"〺", "\u103a", "\U0001003a", "〹"}
var payloadInvalid = []string{"\xe2", "\xe2\x80", "\x80\xb9", "\x80\xba", "\xb9", "\xff", "\xf0\x9f", "\xc3", "\xe2\x80\xe2\x80\xb9"}

type genOpts struct {
	invalidUTF8 bool // payloads may contain invalid UTF-8
	redactKinds bool // redact-specific kinds (Safe/Unsafe, redactables, SafeFormatter, SafeMessager)
	panics      bool // panicking methods
	safeKinds   bool // SafeValue-marked and Reg* kinds
	addrs       bool // values whose rendering contains an address (pointers at depth>0, chan, func)
	starKinds   bool // '*' operands of other types than int (all integer kinds incl. huge unsigned values; non-integers)
	maxDepth    int
}

func randPayload(r *Rng, o genOpts) string {
	n := r.Intn(4)
	if r.Chance(1, 12) {
		n = 0
	}
	var b strings.Builder
	for i := 0; i < n; i++ {
		if o.invalidUTF8 && r.Chance(1, 6) {
			b.WriteString(payloadInvalid[r.Intn(len(payloadInvalid))])
		} else {
			b.WriteString(payloadValid[r.Intn(len(payloadValid))])
		}
	}
	if r.Chance(1, 40) {
		// size boundaries: buffer growth, the pool's oversize rule
		sizes := []int{63, 64, 65, 127, 128, 129}
		b.WriteString(strings.Repeat("k", sizes[r.Intn(len(sizes))]))
	}
	if r.Chance(1, 70) {
		// a long payload with special pieces scattered through it (thresholds that only
		// sizes beyond a few hundred bytes reach: growth steps, scratch buffers, chunked loops)
		for i, m := 0, 40+r.Intn(400); i < m; i++ {
			if r.Chance(1, 6) {
				b.WriteString(payloadValid[r.Intn(len(payloadValid))])
			} else {
				b.WriteString("wordy ")
			}
		}
	}
	return b.String()
}

var intValues = []int64{0, 1, -1, 7, 10, 42, 48879, -48879, 127, 128, 255, 256, 65535, 1 << 31, -(1 << 31), 1<<62 + 48879, -(1 << 63), 0x2039, 0x203a, 0xd800, 0x10ffff, 0x110000}
var floatValues = []float64{0, 1, -1.5, 3.14159, 1e100, 1e-7, 123456789.125, -0.0000001, 1073741824, float64(float32(0.1)), 16777217, 5e-324, 1.7976931348623157e308}

func randInt(r *Rng) int64 { return intValues[r.Intn(len(intValues))] }

// leaf kinds by family
var scalarKinds = []string{"bool", "int", "int8", "int16", "int32", "int64", "uint", "uint8", "uint16", "uint32", "uint64", "uintptr",
	"float32", "float64", "complex64", "complex128", "string", "bytes", "NInt", "NStr", "NBool", "NFloat", "NBytes", "NUint8", "barr", "barr8", "nbarr", "nbslice", "SNArr", "TagStruct", "TagNilPtr", "TagNilChan", "TagMap", "nil"}
var pointerKinds = []string{"ptrInt", "nilPtrInt", "ptrStr", "nilMap", "nilSlice", "nilChan", "nilFunc", "ptrptr", "parr", "iarr", "sarr", "SArr", "SNils", "NFunc"}
var addrKinds = []string{"chan", "func", "uptr", "NChan"}
var methodKinds = []string{"Stringer", "PStringer", "NilPStringer", "PStringerVal", "Err", "StdErr", "WrapErr", "PErr", "NilPErr", "ErrStringer",
	"GoStringer", "GoStrStringer", "Fmter", "PadFmter", "ErrFmter", "FmtFlags"}
var panicKinds = []string{"PanicStringer", "PanicErr", "PanicGoStr", "PanicFmter", "NilSliceStringer", "NilMapErr", "NilFuncStringer"}
var safeKinds = []string{"SVInt", "SVStr", "SVFloat", "SVBytes", "SVStringer", "ISafeString", "ISafeInt", "ISafeUint", "ISafeFloat", "ISafeRune", "ISafeByte", "ISafeBytes",
	"RegInt", "RegStr", "RegDur"}

func randLeaf(r *Rng, o genOpts) *D {
	fam := r.Intn(100)
	switch {
	case fam < 50:
		return leafOfKind(r, scalarKinds[r.Intn(len(scalarKinds))], o)
	case fam < 58:
		return leafOfKind(r, pointerKinds[r.Intn(len(pointerKinds))], o)
	case fam < 60 && o.addrs:
		return leafOfKind(r, addrKinds[r.Intn(len(addrKinds))], o)
	case fam < 80:
		return leafOfKind(r, methodKinds[r.Intn(len(methodKinds))], o)
	case fam < 86 && o.panics:
		return leafOfKind(r, panicKinds[r.Intn(len(panicKinds))], o)
	case fam < 94 && o.safeKinds:
		return leafOfKind(r, safeKinds[r.Intn(len(safeKinds))], o)
	}
	return leafOfKind(r, "string", o)
}

func leafOfKind(r *Rng, k string, o genOpts) *D {
	d := &D{K: k}
	switch k {
	case "nil", "nilPtrInt", "nilMap", "nilSlice", "nilChan", "nilFunc", "chan", "func", "uptr", "NilPStringer", "NilPErr", "SNils", "NFunc", "NChan":
	case "bool", "NBool":
		d.N = int64(r.Intn(2))
	case "float32", "float64", "NFloat", "SVFloat", "ISafeFloat":
		d.F = floatValues[r.Intn(len(floatValues))]
		if (k == "float32" || k == "float64" || k == "NFloat") && r.Chance(1, 5) {
			d.S = QS([]string{"NaN", "+Inf", "-Inf", "-0", "subnormal"}[r.Intn(5)])
		}
	case "complex64", "complex128":
		d.F = floatValues[r.Intn(len(floatValues))]
		d.N = int64(r.Intn(5) - 2)
		if r.Chance(1, 5) {
			d.S = QS([]string{"NaN", "+Inf", "-Inf", "-0"}[r.Intn(4)])
		}
		if r.Chance(1, 5) {
			d.N = 9001 + int64(r.Intn(5)) // imaginary part NaN, +Inf, -Inf, -0, a small fraction
		}
	case "SArr":
		d.S = QS(randPayload(r, o))
		d.N = randInt(r)
	case "string", "NStr", "bytes", "NBytes", "barr", "barr8", "nbarr", "nbslice", "SNArr", "TagStruct", "TagMap", "ptrStr", "parr", "sarr", "Stringer", "PStringer", "PStringerVal", "Err", "StdErr", "WrapErr", "PErr", "ErrStringer",
		"GoStringer", "GoStrStringer", "Fmter", "PadFmter", "ErrFmter", "SVStr", "SVBytes", "SVStringer", "ISafeString", "ISafeBytes", "RegStr", "SafeMsg":
		d.S = QS(randPayload(r, o))
		if k == "bytes" && r.Chance(1, 15) {
			d.N = -1 // nil slice
			d.S = ""
		}
	case "FmtFlags":
		d.S = "fl"
		d.N = int64(r.Intn(2))
	case "PanicStringer", "PanicErr", "PanicGoStr", "PanicFmter":
		d.S = QS(randPayload(r, o))
		d.N = int64(r.Intn(10)) // payload modes 0-9 (see panicSpec.fire)
		if d.N == 5 {
			d.N += 10 * int64(r.Intn(2))
		}
	case "ISafeRune":
		d.N = []int64{'a', 0x2039, 0x203a, '\n', 0xe9, 0x1f6d1}[r.Intn(6)]
	case "ISafeByte":
		d.N = []int64{'a', '\n', 0xe2, 0x80, 0xb9}[r.Intn(5)]
	default:
		d.N = randInt(r)
	}
	return d
}

// randD generates a value descriptor of depth at most depth.
func randD(r *Rng, depth int, o genOpts) *D {
	if depth <= 0 || r.Chance(55, 100) {
		return randLeaf(r, o)
	}
	sub := func() *D { return randD(r, depth-1, o) }
	subs := func(max int) []*D {
		n := r.Intn(max + 1)
		out := make([]*D, n)
		for i := range out {
			out[i] = sub()
		}
		return out
	}
	c := r.Intn(100)
	if r.Chance(1, 45) {
		// a large container (sort paths, growth steps and per-element state only show beyond a handful of elements)
		n := 20 + r.Intn(45)
		switch r.Intn(3) {
		case 0:
			d := &D{K: "slice"}
			for i := 0; i < n; i++ {
				d.Sub = append(d.Sub, randLeaf(r, o))
			}
			return d
		case 1:
			d := &D{K: "map"}
			for i := 0; i < n; i++ {
				d.Sub = append(d.Sub, dS("string", "k"+strconv.Itoa((i*37)%n)+[]string{"", "\n", startM}[i%3]), randLeaf(r, o))
			}
			return d
		default:
			d := &D{K: "imap"}
			for i := 0; i < n; i++ {
				d.Sub = append(d.Sub, dN("int", int64((i*53)%n)*3), randLeaf(r, o))
			}
			return d
		}
	}
	switch {
	case c < 16:
		return dSub("slice", subs(3)...)
	case c < 20:
		return dSub("arr", sub(), sub())
	case c < 30:
		return randMap(r, depth, o)
	case c < 40:
		return dSub("S2", sub(), sub())
	case c < 44:
		return dSub("S3", sub(), sub(), sub())
	case c < 47:
		return &D{K: "STyped", N: randInt(r), S: QS(randPayload(r, o)), F: floatValues[r.Intn(len(floatValues))]}
	case c < 50:
		return &D{K: "SUnexp", N: randInt(r), S: QS(randPayload(r, o)), Sub: []*D{sub()}}
	case c < 53:
		return dSub("SEmbed", sub(), sub(), sub())
	case c < 56:
		return dSub("SErrField", leafOfKind(r, []string{"Err", "StdErr", "PErr", "NilPErr", "ErrFmter", "WrapErr", "nil"}[r.Intn(7)], o), sub())
	case c < 61:
		inner := []string{"slice", "S2", "map", "arr"}[r.Intn(4)]
		var in *D
		switch inner {
		case "slice":
			in = dSub("slice", subs(2)...)
		case "S2":
			in = dSub("S2", sub(), sub())
		case "map":
			in = randMap(r, depth, o)
		default:
			in = dSub("arr", sub(), sub())
		}
		return dSub("ptr", in)
	case c < 64:
		n := r.Intn(4)
		d := &D{K: "ints"}
		for i := 0; i < n; i++ {
			d.Sub = append(d.Sub, dN("int", randInt(r)))
		}
		return d
	case c < 67:
		n := r.Intn(4)
		d := &D{K: []string{"strs", "bytess"}[r.Intn(2)]}
		for i := 0; i < n; i++ {
			d.Sub = append(d.Sub, dS("string", randPayload(r, o)))
		}
		return d
	case c < 69:
		d := &D{K: "errs"}
		for i, n := 0, r.Intn(3); i < n; i++ {
			d.Sub = append(d.Sub, leafOfKind(r, []string{"Err", "StdErr", "PErr", "NilPErr", "ErrFmter", "nil"}[r.Intn(6)], o))
		}
		return d
	case c < 72:
		return dSub("FmtFwd", sub())
	case c < 74:
		return dSub("RValue", sub())
	case c < 75:
		return &D{K: []string{"RVIdx", "RVFieldI", "RVFieldE", "RVIdxS"}[r.Intn(4)], N: randInt(r), S: QS(randPayload(r, o)), Sub: []*D{sub()}}
	case c < 76:
		k := []string{"RValueZero", "RValueField", "RVFieldT", "RVFieldT"}[r.Intn(4)]
		if k == "RVFieldT" && !o.redactKinds && !o.safeKinds {
			k = "RValueField"
		}
		d := &D{K: k, N: randInt(r), S: QS(randPayload(r, o))}
		if k == "RVFieldT" {
			f := int64(r.Intn(7))
			if !o.redactKinds {
				f = []int64{2, 3, 4, 5, 6}[r.Intn(5)] // no redactables
			}
			d.N = 7*int64(r.Intn(5000)) + f
		}
		return d
	case c < 78 && o.safeKinds:
		return dSub("SVStruct", sub(), sub())
	case c < 80 && o.safeKinds:
		return dSub("SVSlice", subs(3)...)
	case c < 82 && o.safeKinds:
		return &D{K: "RegStruct", N: randInt(r), Sub: []*D{sub()}}
	case c < 88 && o.redactKinds:
		return dSub([]string{"Safe", "Unsafe"}[r.Intn(2)], sub())
	case c < 92 && o.redactKinds:
		d := &D{K: []string{"RS", "RS", "RB", "Builder", "PBuilder"}[r.Intn(5)], Sub: subs(2)}
		if r.Chance(1, 3) {
			d.S = QS(randLit(r, o) + "%v" + randLit(r, o) + "%v")
		}
		return d
	case c < 96 && o.redactKinds:
		return randSafeFmt(r, depth, o)
	case c < 97 && o.redactKinds:
		return dS("SafeMsg", randPayload(r, o))
	}
	return randLeaf(r, o)
}

func randMap(r *Rng, depth int, o genOpts) *D {
	n := r.Intn(4)
	if o.addrs && r.Chance(1, 12) {
		// typed maps with bool and channel keys (the nil channel sorts first, the others by address)
		d := &D{K: []string{"bmap", "cmap"}[r.Intn(2)]}
		used := map[int64]bool{}
		for i := 0; i < n; i++ {
			k := int64(r.Intn(4))
			if d.K == "bmap" {
				k &= 1
			}
			if used[k] {
				continue
			}
			used[k] = true
			d.Sub = append(d.Sub, dN("int", k), dS("string", randPayload(r, o)))
		}
		return d
	}
	switch r.Intn(5) {
	case 3:
		// keys of mixed kinds
		d := &D{K: "kmap"}
		used := map[string]bool{}
		for i, m := 0, r.Intn(6); i < m; i++ {
			var k *D
			switch r.Intn(9) {
			case 0:
				k = &D{K: "nil"}
			case 1:
				k = dN("bool", int64(r.Intn(2)))
			case 2:
				if r.Bool() {
					k = dN("int", int64(r.Intn(5)-2))
				} else {
					k = dN([]string{"int64", "int", "int8", "uint64"}[r.Intn(4)], []int64{-9223372036854775808, 9223372036854775807, 1, -1, 0, 1 << 62, -(1 << 62)}[r.Intn(7)])
				}
			case 3:
				k = dN("uint8", int64(r.Intn(4)))
			case 4:
				k = &D{K: "float64", F: []float64{-1.5, 0, 2.25, 1e100}[r.Intn(4)]}
			case 5:
				k = dS("string", []string{"a", "b", "", "k" + startM}[r.Intn(4)])
			case 6:
				if r.Bool() {
					k = &D{K: "kstruct", N: int64(r.Intn(3)), S: QS([]string{"x", "y"}[r.Intn(2)])}
				} else {
					// struct key with an interface-typed component (nil or not) and a later component
					k = &D{K: "kstructI", N: int64(r.Intn(4)), S: QS([]string{"", "", "t"}[r.Intn(3)])}
				}
			case 7:
				ks := []string{"karr", "uintptr", "uint", "ptrInt", "NStr", "NInt"}
				if o.addrs {
					ks = append(ks, "kchan", "kchan", "kuptr", "kptr", "kptr")
				}
				k = dN(ks[r.Intn(len(ks))], int64(r.Intn(40)))
			default:
				k = &D{K: "kcomplex", F: float64(r.Intn(3)), N: int64(r.Intn(3))}
			}
			if used[k.String()] {
				continue
			}
			used[k.String()] = true
			d.Sub = append(d.Sub, k, randD(r, depth-1, o))
		}
		return d
	case 4:
		if r.Bool() {
			d := &D{K: "fmap"}
			used := map[float64]bool{}
			for i := 0; i < n; i++ {
				f := []float64{-2.5, -0.0, 0, 1, 3.75, 1e100, math.NaN(), math.Inf(-1)}[r.Intn(8)]
				if f != f && used[-12345] {
					continue
				}
				if f != f {
					used[-12345] = true
				}
				if used[f] {
					continue
				}
				used[f] = true
				d.Sub = append(d.Sub, &D{K: "float64", F: f}, dS("string", randPayload(r, o)))
			}
			return d
		}
		d := &D{K: "amap"}
		used := map[int64]bool{}
		for i := 0; i < n; i++ {
			k := int64(r.Intn(1000))
			if used[k] {
				continue
			}
			used[k] = true
			d.Sub = append(d.Sub, dN("int", k), dN("bool", int64(r.Intn(2))))
		}
		return d
	case 0:
		d := &D{K: "map"}
		used := map[string]bool{}
		for i := 0; i < n; i++ {
			k := mapKey(r, o)
			if used[k] {
				continue
			}
			used[k] = true
			d.Sub = append(d.Sub, dS("string", k), randD(r, depth-1, o))
		}
		return d
	case 1:
		d := &D{K: "imap"}
		used := map[int64]bool{}
		for i := 0; i < n; i++ {
			k := int64(r.Intn(50)) * 3
			if used[k] {
				continue
			}
			used[k] = true
			d.Sub = append(d.Sub, dN("int", k), randD(r, depth-1, o))
		}
		return d
	}
	d := &D{K: "mapIntStr"}
	used := map[int64]bool{}
	for i := 0; i < n; i++ {
		k := int64(r.Intn(50)) * 3
		if used[k] {
			continue
		}
		used[k] = true
		d.Sub = append(d.Sub, dN("int", k), dS("string", randPayload(r, o)))
	}
	return d
}

// mapKey: string keys avoid 'z' so that the order-preserving C02 mutation
// (shift of the lower-case letters) is injective.
func mapKey(r *Rng, o genOpts) string {
	parts := []string{"a", "b", "key", "k\n", startM, "é", " ", "q", "m\xc3\x97", ""}
	s := parts[r.Intn(len(parts))] + parts[r.Intn(len(parts))]
	if o.invalidUTF8 && r.Chance(1, 8) {
		s += "\xe2"
	}
	return s
}

func randSafeFmt(r *Rng, depth int, o genOpts) *D {
	n := 1 + r.Intn(5)
	d := &D{K: "SafeFmt"}
	if r.Chance(1, 8) {
		d.K = "SafeFmtErr"
	}
	for i := 0; i < n; i++ {
		d.Sub = append(d.Sub, randStep(r, depth, o))
	}
	return d
}

func randStep(r *Rng, depth int, o genOpts) *D {
	o2 := o
	switch r.Intn(19) {
	case 16:
		return dN([]string{"sSafeByte", "sUnsafeByte"}[r.Intn(2)], []int64{'a', '\n', ' ', '?', 'Z'}[r.Intn(5)])
	case 17:
		return dN("sSafeUint", []int64{0, 7, 1 << 40, -1, -9223372036854775808}[r.Intn(5)]) // (negative: the upper half of the uint64 range)
	case 18:
		return &D{K: "sSafeFloat", F: floatValues[r.Intn(len(floatValues))]}
	case 0, 1:
		return dS("sSafeString", randPayload(r, o))
	case 2:
		return dN("sSafeInt", randInt(r))
	case 3:
		return dN("sSafeRune", []int64{'a', 0x2039, 0x203a, '\n', 0xe9}[r.Intn(5)])
	case 4:
		return dS("sSafeBytes", randPayload(r, o))
	case 5, 6:
		return dS("sUnsafeString", randPayload(r, o))
	case 7:
		return dS("sUnsafeBytes", randPayload(r, o))
	case 8:
		return dN("sUnsafeRune", []int64{'a', 0x2039, 0x203a, '\n', 0xe9}[r.Intn(5)])
	case 9:
		return dS("sWrite", randPayload(r, o))
	case 10:
		return dS("sWriteString", randPayload(r, o))
	case 11, 12:
		d := &D{K: "sPrint"}
		for i, n := 0, r.Intn(3); i < n; i++ {
			d.Sub = append(d.Sub, randD(r, depth-1, o2))
		}
		return d
	case 13, 14:
		d := &D{K: "sPrintf"}
		var f strings.Builder
		for i, n := 0, r.Intn(3); i < n; i++ {
			f.WriteString(randLit(r, o))
			f.WriteString([]string{"%v", "%s", "%d", "%+v", "%q", "%5v", "%x", "%w", "%-7.2v"}[r.Intn(9)])
			d.Sub = append(d.Sub, randD(r, depth-1, o2))
		}
		f.WriteString(randLit(r, o))
		d.S = QS(f.String())
		return d
	default:
		if o.panics && r.Chance(1, 2) {
			return &D{K: "sPanic", S: QS(randPayload(r, o)), N: []int64{0, 1, 2, 3, 4, 6, 7, 8, 9}[r.Intn(9)]}
		}
		return &D{K: "sVerb"}
	}
}

// ---- formats ----------------------------------------------------------------------

var litPieces = []string{"x", "lit ", "=", ":", " ", "\n", startM, endM, redactedM, "é", "%%", "\t", "(", ")", "?", "nº", "‰", "※", "¹", "ok ☺", "⁹", "\ufffd", "\r", "\x7f", "n〺", "\u103a"}
var litInvalid = []string{"\xe2", "\xe2\x80", "\x80\xb9", "\xff"}

func randLit(r *Rng, o genOpts) string {
	n := r.Intn(3)
	var b strings.Builder
	for i := 0; i < n; i++ {
		if o.invalidUTF8 && r.Chance(1, 8) {
			b.WriteString(litInvalid[r.Intn(len(litInvalid))])
		} else {
			b.WriteString(litPieces[r.Intn(len(litPieces))])
		}
	}
	return b.String()
}

// Dir is one directive of a structured format.
type Dir struct {
	Lit   string `json:"lit,omitempty"`
	Flags string `json:"flags,omitempty"`
	Width string `json:"width,omitempty"` // "", digits, "*"
	WT    string `json:"wstar,omitempty"` // when set: the '*' width operand is starOperands[WT] instead of WArg
	PT    string `json:"pstar,omitempty"` // same for the '*' precision
	Prec  string `json:"prec,omitempty"`  // "", ".", ".digits", ".*"
	Verb  string `json:"verb"`
	WArg  int    `json:"warg,omitempty"` // operand of a '*' width
	PArg  int    `json:"parg,omitempty"` // operand of a '*' precision
}

func (d Dir) String() string {
	return strings.ReplaceAll(d.Lit, "%", "%%") + "%" + d.Flags + d.Width + d.Prec + d.Verb
}

var allVerbs = func() []string {
	var v []string
	for c := 'a'; c <= 'z'; c++ {
		v = append(v, string(c))
	}
	for c := 'A'; c <= 'Z'; c++ {
		v = append(v, string(c))
	}
	return append(v, "!", "_", "é", startM, "\U0001f6d1", "~")
}()

var commonVerbs = []string{"v", "v", "v", "s", "d", "q", "x", "X", "t", "f", "g", "e", "c", "U", "o", "b", "p", "T", "O", "E", "G", "F"}
var flagSets = []string{"", "", "", "+", "-", "#", " ", "0", "+#", "-#", "# ", "+0", " 0", "-+", "#0", "+-# 0"}
var widthForms = []string{"", "", "", "1", "5", "12", "*"}
var precForms = []string{"", "", "", ".", ".0", ".2", ".7", ".*"}

func randDir(r *Rng, o genOpts, rare bool) Dir {
	d := Dir{Lit: randLit(r, o)}
	d.Flags = flagSets[r.Intn(len(flagSets))]
	d.Width = widthForms[r.Intn(len(widthForms))]
	d.Prec = precForms[r.Intn(len(precForms))]
	if rare {
		d.Verb = allVerbs[r.Intn(len(allVerbs))]
	} else {
		d.Verb = commonVerbs[r.Intn(len(commonVerbs))]
	}
	// widths and precisions around the sizes of the formatter's fixed scratch buffers
	if r.Chance(1, 14) {
		d.Width = wideForms[r.Intn(len(wideForms))]
	}
	if r.Chance(1, 14) {
		d.Prec = "." + wideForms[r.Intn(len(wideForms))]
	}
	if d.Width == "*" {
		d.WArg = []int{0, 1, 6, -6, 20, 69, -70, 131}[r.Intn(8)]
	}
	if d.Prec == ".*" {
		d.PArg = []int{0, 1, 3, -1, 9, 66, 69, 131}[r.Intn(8)]
	}
	if o.starKinds && d.Width == "*" && r.Chance(1, 6) {
		d.WT = starNames[r.Intn(len(starNames))]
	}
	if o.starKinds && d.Prec == ".*" && r.Chance(1, 6) {
		d.PT = starNames[r.Intn(len(starNames))]
	}
	return d
}

// starOperands: '*' operands that are not plain ints (fmt accepts every integer kind and checks the range).
var starOperands = map[string]interface{}{
	"int8": int8(-5), "int16": int16(7), "int32": int32(9), "int64": int64(4), "int64big": int64(1) << 40, "int64min": int64(math.MinInt64),
	"uint": uint(6), "uint8": uint8(3), "uint16": uint16(8), "uint32": uint32(5), "uint64": uint64(7), "uintptr": uintptr(4),
	"uint64max": uint64(math.MaxUint64), "uint64max-9": uint64(math.MaxUint64 - 9), "uintmax": ^uint(0), "uintptrmax-3": ^uintptr(3),
	"uint64(1<<63)": uint64(1) << 63, "uint32max": uint32(math.MaxUint32), "1e6": 1000000, "1e6+1": 1000001, "-1e6-1": -1000001,
	"string": "7", "float": 7.0, "nil": nil, "bool": true, "NInt": tNInt(6),
}
var starNames = func() []string {
	var ns []string
	for n := range starOperands {
		if n != "1e6" { // a megabyte of padding: used in fixed cases only
			ns = append(ns, n)
		}
	}
	sort.Strings(ns)
	return ns
}()

func (d Dir) wOperand() interface{} {
	if d.WT != "" {
		return starOperands[d.WT]
	}
	return d.WArg
}

func (d Dir) pOperand() interface{} {
	if d.PT != "" {
		return starOperands[d.PT]
	}
	return d.PArg
}

var wideForms = []string{"30", "60", "63", "64", "65", "66", "67", "68", "69", "70", "71", "100", "129", "257", "520"}

// Call is one print call: structured format (or Print-style when Format is
// nil and Raw is empty), operands, and where the star operands sit.
type Call struct {
	Dirs []Dir  `json:"dirs,omitempty"`
	Tail string `json:"tail,omitempty"`
	Raw  QS     `json:"raw,omitempty"` // raw format string (overrides Dirs)
	Args []*D   `json:"args"`          // value operands, in order of use
	Sp   bool   `json:"sprint,omitempty"`
}

// format returns the format string.
func (c *Call) format() string {
	if c.Raw != "" || len(c.Dirs) == 0 {
		return string(c.Raw)
	}
	var b strings.Builder
	for _, d := range c.Dirs {
		b.WriteString(d.String())
	}
	b.WriteString(strings.ReplaceAll(c.Tail, "%", "%%"))
	return b.String()
}

// operands interleaves the star operands with the values built by build.
func (c *Call) operands(build func(*D) interface{}) []interface{} {
	var out []interface{}
	if len(c.Dirs) == 0 {
		for _, a := range c.Args {
			out = append(out, build(a))
		}
		return out
	}
	ai := 0
	for _, d := range c.Dirs {
		if d.Width == "*" {
			out = append(out, d.WArg)
		}
		if d.Prec == ".*" {
			out = append(out, d.PArg)
		}
		if ai < len(c.Args) {
			out = append(out, build(c.Args[ai]))
			ai++
		}
	}
	for ; ai < len(c.Args); ai++ {
		out = append(out, build(c.Args[ai])) // extra operands
	}
	return out
}

func (c *Call) String() string {
	var b strings.Builder
	if c.Sp {
		b.WriteString("Sprint(")
	} else {
		b.WriteString("Sprintf(" + strconv.Quote(c.format()))
	}
	for _, a := range c.Args {
		b.WriteString(", " + a.String())
	}
	b.WriteString(")")
	for i, d := range c.Dirs {
		if d.Width == "*" {
			b.WriteString(" [directive " + strconv.Itoa(i) + ": '*' width operand " + starString(d.wOperand()) + "]")
		}
		if d.Prec == ".*" {
			b.WriteString(" [directive " + strconv.Itoa(i) + ": '*' precision operand " + starString(d.pOperand()) + "]")
		}
	}
	return b.String()
}

func starString(v interface{}) string {
	if v == nil {
		return "nil"
	}
	return reflect.TypeOf(v).String() + "(" + sprint(v) + ")"
}

var rawFrags = []string{"%", "%", "[", "]", "1", "2", "3", "*", ".", "-", "+", "#", " ", "0", "v", "d", "s", "x", "q", "T", "p", "w", "é", startM, endM, "!", "(", ")",
	"20000001", "\n", "\xe2", "%!", "%[1]", "%[2]*", "%.*", "[0]", "[9]", "[-1]", "[x]", "lit", "%%"}

// randCall generates a random print call.
func randCall(r *Rng, o genOpts) *Call {
	c := &Call{}
	mode := r.Intn(100)
	switch {
	case mode < 15: // Sprint
		c.Sp = true
		for i, n := 0, r.Intn(4); i < n; i++ {
			c.Args = append(c.Args, randD(r, o.maxDepth, o))
		}
	case mode < 16 && o.invalidUTF8: // a format of arbitrary bytes
		n := 1 + r.Intn(14)
		b := make([]byte, n)
		for i := range b {
			switch r.Intn(5) {
			case 0:
				b[i] = '%'
			case 1:
				b[i] = "vdsxqT[]*.0-+# 123"[r.Intn(18)]
			case 2:
				b[i] = []byte{0xe2, 0x80, 0xb9, 0xba, 0xc3, 0xff, '\n'}[r.Intn(7)]
			default:
				b[i] = byte(r.Intn(256))
			}
		}
		c.Raw = QS(capDigitRuns(string(b)))
		for i, n := 0, r.Intn(3); i < n; i++ {
			c.Args = append(c.Args, randD(r, 1, o))
		}
	case mode < 17: // a format without any directive (constant message), with or without operands
		var b strings.Builder
		for i, n := 0, r.Intn(4); i < n; i++ {
			b.WriteString(strings.ReplaceAll(randLit(r, o), "%%", "pct"))
			if r.Chance(1, 3) {
				b.WriteString(strings.ReplaceAll(randPayload(r, o), "%", ""))
			}
		}
		c.Raw = QS(b.String())
		if c.Raw == "" {
			c.Raw = QS(startM)
		}
		for i, n := 0, r.Intn(3)/2; i < n; i++ {
			c.Args = append(c.Args, randD(r, 1, o))
		}
	case mode < 21: // explicit argument indexes (valid, zero, too large), combined with widths, precisions and stars
		var b strings.Builder
		for i, n := 0, 1+r.Intn(4); i < n; i++ {
			b.WriteString(randLit(r, genOpts{}))
			k := []string{"0", "1", "1", "2", "2", "3", "9", "00", "-1", "x"}[r.Intn(10)]
			verb := []string{"v", "d", "s", "x", "X", "q", "T", "G", "c"}[r.Intn(9)]
			fl := []string{"", "", "+", "-", "#", "0"}[r.Intn(6)]
			switch r.Intn(7) {
			case 0:
				b.WriteString("%" + fl + "[" + k + "]" + verb)
			case 1:
				b.WriteString("%" + fl + "[" + k + "]3" + verb) // index then width: bad
			case 2:
				b.WriteString("%" + fl + "[" + k + "]*" + verb)
			case 3:
				b.WriteString("%" + fl + ".[" + k + "]*" + verb)
			case 4:
				b.WriteString("%" + fl + "5.2" + verb) // a plain directive after indexed ones
			case 5:
				b.WriteString("%" + fl + "[" + k + "]*.[" + []string{"1", "2", "0"}[r.Intn(3)] + "]*[" + []string{"1", "3"}[r.Intn(2)] + "]" + verb)
			default:
				b.WriteString("%" + fl + "3[" + k + "]" + verb)
			}
		}
		c.Raw = QS(b.String())
		for i, n := 0, 1+r.Intn(3); i < n; i++ {
			if r.Chance(1, 2) {
				c.Args = append(c.Args, dN("int", []int64{0, 1, 5, -3, 12}[r.Intn(5)]))
			} else {
				c.Args = append(c.Args, randD(r, 1, o))
			}
		}
	case mode < 30: // raw hostile format
		var b strings.Builder
		for i, n := 0, 1+r.Intn(8); i < n; i++ {
			b.WriteString(rawFrags[r.Intn(len(rawFrags))])
		}
		c.Raw = QS(capDigitRuns(b.String()))
		for i, n := 0, r.Intn(4); i < n; i++ {
			if r.Chance(1, 3) {
				c.Args = append(c.Args, dN("int", []int64{0, 1, 5, -3, 1000001}[r.Intn(5)]))
			} else {
				c.Args = append(c.Args, randD(r, o.maxDepth, o))
			}
		}
	default:
		n := 1 + r.Intn(3)
		if r.Chance(1, 60) {
			n = 10 + r.Intn(20) // many directives in one format
		}
		for i := 0; i < n; i++ {
			c.Dirs = append(c.Dirs, randDir(r, o, r.Chance(1, 6)))
			c.Args = append(c.Args, randD(r, o.maxDepth, o))
		}
		c.Tail = randLit(r, o)
		switch r.Intn(12) {
		case 0: // missing operand
			c.Args = c.Args[:len(c.Args)-1]
		case 1: // extra operand
			c.Args = append(c.Args, randD(r, 1, o))
		}
	}
	return c
}

// capDigitRuns shortens digit runs of 5 to 7 digits to 4 digits: a width
// between 10^4 and 10^7 is accepted by the parser and makes every element of
// a nested operand megabytes long (slow, and not a different path). Runs of 8
// or more digits are kept: they overflow the parser's limit.
func capDigitRuns(f string) string {
	var b strings.Builder
	for i := 0; i < len(f); {
		j := i
		for j < len(f) && f[j] >= '0' && f[j] <= '9' {
			j++
		}
		if n := j - i; n >= 5 && n <= 7 {
			b.WriteString(f[i : i+4])
		} else if n > 0 {
			b.WriteString(f[i:j])
		}
		if j == i {
			b.WriteByte(f[i])
			j++
		}
		i = j
	}
	return b.String()
}
