package main

// C17 — a registered error hook renders every error operand, except under Unsafe.

import (
	"fmt"
	"io"
	"regexp"
	"strconv"
	"strings"

	"github.com/cockroachdb/redact"
)

func init() {
	register("C17", &monitor{
		phases: func(tier string) []string { return []string{"hook", "nohook"} },
		run:    runC17,
		rule: "two configurations (fresh process each: hook installed / no hook). Error values of 9 classes (plain, +Stringer, +Formatter, +GoStringer, pointer receiver, typed nil, wrapping, +SafeFormatter, +SafeMessager) with canaries in their own methods, at top level, as %w operand of HelperForErrorf, in exported/embedded fields, slices, []error, map values, behind pointers, as EXTRA operands, under Safe and Unsafe, for all verbs and flag sets; " +
			"the hook records every call and emits safe and unsafe parts; oracle: canonical output == bracket-instrumented fmt rendering with each dispatch-reachable error replaced by a stand-in printing the hook's rendering, recorded (error, verb) list == expected list in print order, no canary of the error's own methods outside Unsafe; without hook: stripped output == esc(fmt) and no hook call; " +
			"non-trivial = at least one error was reachable through dispatch; distinct = distinct (configuration, format, operands)",
	})
}

var panicLabelRe = regexp.MustCompile(`\(PANIC=[A-Za-z]+ method: `)

type hookCall struct {
	id   int
	verb rune
}

type hookLog struct {
	calls []hookCall
}

// hookable is what the harness's error types expose to the hook.
type hookable interface {
	hookInfo() (id int, log *hookLog, panics bool)
}

// The log is reached through a func value: printed by reflection (bad verb,
// Unsafe) a func is one address, a pointer would dump the log's content,
// which changes while the case runs.
type hBase struct {
	id     int
	log    func() *hookLog
	panics bool
}

func (b hBase) hookInfo() (int, *hookLog, bool) { return b.id, b.log(), b.panics }
func (b hBase) can(kind string) string          { return "CANARY" + kind + strconv.Itoa(b.id) + ";" }

type hErr struct{ hBase }

func (e hErr) Error() string { return e.can("ERR") }

type hErrStringer struct{ hBase }

func (e hErrStringer) Error() string  { return e.can("ERR") }
func (e hErrStringer) String() string { return e.can("STR") }

type hErrFmter struct{ hBase }

func (e hErrFmter) Error() string                 { return e.can("ERR") }
func (e hErrFmter) Format(f fmt.State, verb rune) { io.WriteString(f, e.can("FMT")) }

type hErrGo struct{ hBase }

func (e hErrGo) Error() string    { return e.can("ERR") }
func (e hErrGo) GoString() string { return e.can("GO") }

type hPErr struct{ hBase }

func (e *hPErr) Error() string { return e.can("ERR") }
func (e *hPErr) hookInfo() (int, *hookLog, bool) {
	if e == nil {
		return -2, nil, false
	}
	return e.id, e.log(), e.panics
}

type hWrapErr struct {
	hBase
	inner error
}

func (e hWrapErr) Error() string { return e.can("ERR") + ": " + e.inner.Error() }
func (e hWrapErr) Unwrap() error { return e.inner }

type hSafeFmtErr struct{ hBase }

func (e hSafeFmtErr) Error() string { return e.can("ERR") }
func (e hSafeFmtErr) SafeFormat(p redact.SafePrinter, verb rune) {
	p.SafeString("SF<")
	p.UnsafeString("sf" + strconv.Itoa(e.id))
	p.SafeString(">")
}

type hSafeMsgErr struct{ hBase }

func (e hSafeMsgErr) Error() string       { return e.can("ERR") }
func (e hSafeMsgErr) SafeMessage() string { return "SM" + strconv.Itoa(e.id) }

// nilLog records hook calls for typed-nil errors (they cannot carry a log).
type c17ctx struct {
	log    *hookLog
	nilLog *hookLog
}

// theHook is the function installed with RegisterRedactErrorFn.
func theHook(err error, p redact.SafePrinter, verb rune) {
	id, log, panics := -1, (*hookLog)(nil), false
	if h, ok := err.(hookable); ok {
		id, log, panics = h.hookInfo()
	}
	if log != nil {
		log.calls = append(log.calls, hookCall{id, verb})
	}
	if panics {
		panic("hook-panic-" + strconv.Itoa(id))
	}
	p.SafeString("H<")
	p.SafeString(redact.SafeString(strconv.Itoa(id)))
	p.SafeString("|")
	p.SafeRune(redact.SafeRune(verb))
	p.SafeString("|")
	p.UnsafeString("d" + strconv.Itoa(id))
	p.SafeString(">")
	// like real hooks (cockroachdb/errors), print the cause through the printer
	if n, ok := err.(interface{ hookInner() error }); ok && n.hookInner() != nil {
		if id%2 == 1 {
			p.Print(n.hookInner())
		} else {
			p.Printf("%v", n.hookInner())
		}
	}
}

// hNestErr: an error of an uncomparable type (value receiver, slice field) whose cause the hook prints through its printer.
type hNestErr struct {
	hBase
	tags  []string
	inner error
}

func (e hNestErr) Error() string    { return e.can("ERR") }
func (e hNestErr) hookInner() error { return e.inner }

// hookTwin is the fmt-side stand-in of an error rendered by the hook.
type hookTwin struct {
	id     int
	log    *hookLog
	panics bool
	safe   bool
}

func (t hookTwin) Format(f fmt.State, verb rune) {
	if verb == 'w' {
		verb = 'v'
	}
	if t.log != nil {
		t.log.calls = append(t.log.calls, hookCall{t.id, verb})
	}
	if t.panics {
		// contained like any other method panic: %!verb(PANIC=SafeFormatter method: <payload as unsafe>)
		open, cl := "\x01", "\x02"
		if t.safe {
			open, cl = "", ""
		}
		fmt.Fprintf(f, "%%!%c(PANIC=SafeFormatter method: %shook-panic-%d%s)", verb, open, t.id, cl)
		return
	}
	if t.safe {
		fmt.Fprintf(f, "H<%d|%c|d%d>", t.id, verb, t.id)
	} else {
		fmt.Fprintf(f, "H<%d|%c|\x01d%d\x02>", t.id, verb, t.id)
	}
}

// errSpec describes one error value of a case.
type errSpec struct {
	Class  string `json:"class"`
	ID     int    `json:"id"`
	Panics bool   `json:"hook_panics,omitempty"`
}

var errClasses = []string{"hErr", "hErrStringer", "hErrFmter", "hErrGo", "hPErr", "nilPErr", "hWrapErr", "hSafeFmtErr", "hSafeMsgErr"}

func (s errSpec) real(lg *hookLog) error {
	log := func() *hookLog { return lg }
	b := hBase{s.ID, log, s.Panics}
	switch s.Class {
	case "hErr":
		return hErr{b}
	case "hErrStringer":
		return hErrStringer{b}
	case "hErrFmter":
		return hErrFmter{b}
	case "hErrGo":
		return hErrGo{b}
	case "hPErr":
		return &hPErr{b}
	case "nilPErr":
		return (*hPErr)(nil)
	case "hWrapErr":
		return hWrapErr{b, hErr{hBase{s.ID + 1000, log, false}}}
	case "hSafeFmtErr":
		return hSafeFmtErr{b}
	case "hSafeMsgErr":
		return hSafeMsgErr{b}
	}
	panic("errSpec " + s.Class)
}

// twin: what fmt is given in place of the error when the hook is installed.
// ctx: 0 none, 1 under Safe.
func (s errSpec) twin(log *hookLog, safe bool) interface{} {
	switch s.Class {
	case "hSafeFmtErr":
		if safe {
			return c17text("SF<sf" + strconv.Itoa(s.ID) + ">")
		}
		return c17text("SF<\x01sf" + strconv.Itoa(s.ID) + "\x02>")
	case "hSafeMsgErr":
		return strTwin{"SM" + strconv.Itoa(s.ID)}
	case "nilPErr":
		return hookTwin{-2, nil, false, safe}
	}
	return hookTwin{s.ID, log, s.Panics, safe}
}

// c17text prints a fixed text whatever the directive (like a SafeFormat method that ignores it).
type c17text string

func (t c17text) Format(f fmt.State, verb rune) { io.WriteString(f, string(t)) }

// c17case: a format with positions; each position is an error in some shape.
type c17pos struct {
	Err   errSpec `json:"err"`
	Shape string  `json:"shape"` // top, slice, errs, map, field, embed, ptr, safe, unsafe, unexported
}

type c17case struct {
	Dirs   []Dir    `json:"dirs"`
	Tail   string   `json:"tail"`
	Pos    []c17pos `json:"pos"`
	Errorf bool     `json:"errorf,omitempty"`
	Extra  bool     `json:"extra_operand,omitempty"`
}

type tErrHolder struct {
	Err error
	N   interface{}
}
type tErrEmbed struct {
	tErrHolder
	Tag interface{}
}
type tErrUnexp struct {
	err error
	N   interface{}
}

// filler is a neighbour value that prints the same text under every verb.
var filler = tFmter{"F"}

var c17shapes = []string{"top", "top", "slice", "errs", "map", "field", "embed", "ptr", "safe", "unsafe", "unexported", "unsafe-slice", "unsafe-field", "unsafe-map", "safe-slice", "safe-field"}

func shapeReal(shape string, e error) interface{} {
	switch shape {
	case "top":
		return e
	case "slice":
		return []interface{}{filler, e}
	case "errs":
		return []error{e}
	case "map":
		return map[interface{}]interface{}{filler: e}
	case "field":
		return tErrHolder{e, filler}
	case "embed":
		return tErrEmbed{tErrHolder{e, filler}, filler}
	case "ptr":
		return &tErrHolder{e, filler}
	case "safe":
		return redact.Safe(e)
	case "unsafe":
		return redact.Unsafe(e)
	case "unexported":
		return tErrUnexp{e, filler}
	case "unsafe-slice":
		return []interface{}{filler, redact.Unsafe(e)}
	case "unsafe-field":
		return tS2{redact.Unsafe(e), filler}
	case "unsafe-map":
		return map[interface{}]interface{}{filler: redact.Unsafe(e)}
	case "safe-slice":
		return []interface{}{filler, redact.Safe(e)}
	case "safe-field":
		return tS2{redact.Safe(e), filler}
	}
	panic(shape)
}

// shapeTwin builds the fmt-side operand. hooked: a hook is installed.
func shapeTwin(shape string, s errSpec, e error, log *hookLog, hooked bool) interface{} {
	var inner interface{} = e
	if hooked {
		inner = s.twin(log, false)
	} else {
		inner = brkErr(s, e)
	}
	switch shape {
	case "top":
		return inner
	case "slice":
		return []interface{}{brk{filler}, inner}
	case "errs":
		return []interface{}{inner}
	case "map":
		return map[interface{}]interface{}{brk{filler}: inner}
	case "field":
		return tErrHolderTwin{inner, brk{filler}}
	case "embed":
		return tErrEmbedTwin{tErrHolderTwin{inner, brk{filler}}, brk{filler}}
	case "ptr":
		return &tErrHolderTwin{inner, brk{filler}}
	case "safe":
		if hooked {
			return s.twin(log, true)
		}
		switch s.Class {
		case "hSafeFmtErr":
			return c17text("SF<sf" + strconv.Itoa(s.ID) + ">")
		case "hSafeMsgErr":
			return strTwin{"SM" + strconv.Itoa(s.ID)}
		case "nilPErr":
			return c17text("<nil>")
		}
		return plainErr(s, e)
	case "unsafe":
		// the hook is bypassed: the error's plain text, fully enveloped
		return brk{plainErr(s, e)}
	case "unsafe-slice":
		return []interface{}{brk{filler}, brk{plainErr(s, e)}}
	case "unsafe-field":
		return tS2{brk{plainErr(s, e)}, brk{filler}}
	case "unsafe-map":
		return map[interface{}]interface{}{brk{filler}: brk{plainErr(s, e)}}
	case "safe-slice":
		return []interface{}{brk{filler}, shapeTwin("safe", s, e, log, hooked)}
	case "safe-field":
		return tS2{shapeTwin("safe", s, e, log, hooked), brk{filler}}
	}
	panic(shape)
}

// plainErr: what fmt prints for the error itself (SafeFormatter/SafeMessager
// errors are not fmt-compatible: their fmt rendering is their Error text).
func plainErr(s errSpec, e error) interface{} { return e }

// brkErr: without hook, an error is an unsafe leaf printed through its own methods,
// except SafeFormatter/SafeMessager errors, which render themselves.
func brkErr(s errSpec, e error) interface{} {
	switch s.Class {
	case "hSafeFmtErr":
		return c17text("SF<\x01sf" + strconv.Itoa(s.ID) + "\x02>")
	case "hSafeMsgErr":
		return strTwin{"SM" + strconv.Itoa(s.ID)}
	case "nilPErr":
		return c17text("<nil>") // nil receiver: the method panics and <nil> is printed as plain (safe) text
	}
	return brk{e}
}

type tErrHolderTwin struct {
	Err interface{}
	N   interface{}
}
type tErrEmbedTwin struct {
	tErrHolderTwin
	Tag interface{}
}

func (c *c17case) format() string {
	var b strings.Builder
	for _, d := range c.Dirs {
		b.WriteString(d.String())
	}
	b.WriteString(c.Tail)
	return b.String()
}

func (c *c17case) String() string {
	s := fmt.Sprintf("%q", c.format())
	for _, p := range c.Pos {
		s += fmt.Sprintf(" %s(%s#%d)", p.Shape, p.Err.Class, p.Err.ID)
	}
	if c.Errorf {
		s = "HelperForErrorf " + s
	}
	return s
}

// verbOKForShape: verbs under which the twin types print like the real ones.
// Struct shapes under %#v print type names (differ between real and twin types).
func c17verbOK(shape string, d Dir) bool {
	if d.Verb == "T" || d.Verb == "p" {
		return false
	}
	sharpV := d.Verb == "v" && strings.Contains(d.Flags, "#")
	switch shape {
	case "field", "embed", "ptr", "errs", "map", "unsafe-map":
		return !sharpV
	}
	return true
}

func c17check(w *Worker, cs *c17case, hooked bool, idx int64) {
	format := cs.format()
	if hasZeroMinus(format) {
		return
	}
	for i, p := range cs.Pos {
		if i >= len(cs.Dirs) {
			continue
		}
		d := cs.Dirs[i]
		if !c17verbOK(p.Shape, d) {
			return
		}
		if d.Verb == "w" && !cs.Errorf {
			return // %w outside HelperForErrorf is a bad verb: the operand is printed inside the report, without dispatch
		}
		stringVerb := strings.Contains("vsxXq", d.Verb) && !(d.Verb == "v" && strings.Contains(d.Flags, "#"))
		if !hooked && p.Err.Class != "hErrFmter" && p.Err.Class != "hSafeFmtErr" && !stringVerb {
			return // without hook the error prints through its own methods only under the string verbs
		}
		if (strings.HasPrefix(p.Shape, "unsafe-") || strings.HasPrefix(p.Shape, "safe-")) && !stringVerb && p.Err.Class != "hErrFmter" {
			return // a wrapper inside a container: its content's structural rendering depends on the depth, which a top-level stand-in cannot reproduce
		}
		if p.Err.Class == "hSafeMsgErr" && !stringVerb && !strings.HasPrefix(p.Shape, "unsafe") {
			return // a SafeMessager's text is a string: other verbs are bad verbs for it
		}
	}
	log, tlog := &hookLog{}, &hookLog{}
	var rargs, targs []interface{}
	twinOK := true
	reachable := 0
	for i, p := range cs.Pos {
		e := p.Err.real(log)
		if i < len(cs.Dirs) {
			d := cs.Dirs[i]
			if d.Width == "*" {
				rargs, targs = append(rargs, d.WArg), append(targs, d.WArg)
			}
			if d.Prec == ".*" {
				rargs, targs = append(rargs, d.PArg), append(targs, d.PArg)
			}
		}
		rargs = append(rargs, shapeReal(p.Shape, e))
		if p.Shape == "unexported" {
			twinOK = false // compared by canaries and call log only
		} else {
			targs = append(targs, shapeTwin(p.Shape, p.Err, e, tlog, hooked))
			if !strings.HasPrefix(p.Shape, "unsafe") && p.Err.Class != "hSafeFmtErr" && p.Err.Class != "hSafeMsgErr" {
				reachable++
			}
		}
	}
	route := routeS
	fformat := format
	if cs.Errorf {
		route = routeErrorf
		fformat = strings.Replace(format, "%w", "%v", 1)
	}
	ro := runRedact(route, false, format, rargs)
	w.Eval(1)
	csf := func() interface{} { return cs }
	if ro.panicked {
		w.Violate("C17 panic", "panic escaped: "+pvalString(ro.pval)+" for "+cs.String(), csf())
		return
	}
	p := parse(ro.out)
	if !p.WellFormed {
		w.Violate("C17 ill-formed", "output "+q(ro.out)+" for "+cs.String(), csf())
		return
	}
	if !hooked && len(log.calls) != 0 {
		w.Violate("C17 phantom-hook", "hook called although none is installed", csf())
	}
	// canaries: with a hook, the error's own methods must not be used outside Unsafe
	if hooked {
		for _, ps := range cs.Pos {
			if strings.HasPrefix(ps.Shape, "unsafe") || ps.Shape == "unexported" || ps.Err.Class == "nilPErr" {
				continue
			}
			for _, kind := range []string{"ERR", "STR", "FMT", "GO"} {
				if strings.Contains(ro.out, "CANARY"+kind+strconv.Itoa(ps.Err.ID)+";") {
					w.Violate("C17 own-method-used", "the error's own "+kind+" text appears although a hook is installed: "+q(ro.out)+" for "+cs.String(), csf())
					return
				}
			}
		}
	}
	if !twinOK {
		w.Count("unexported_cases", 1)
		return
	}
	fo := runFmt(false, false, fformat, targs)
	if fo.panicked {
		w.Count("twin_panicked", 1)
		return
	}
	f := strings.ReplaceAll(fo.out, "tErrHolderTwin", "tErrHolder")
	if cs.Extra {
		// the EXTRA report names the operand's type: the stand-in's type name is replaced by the real one
		for i := range rargs {
			f = strings.Replace(f, "EXTRA "+fmt.Sprintf("%T", targs[i])+"=", "EXTRA "+fmt.Sprintf("%T", rargs[i])+"=", 1)
		}
	}
	exp, ok := bracketsToRedactable(f, nil)
	if !ok {
		w.Count("twin_unparsable", 1)
		return
	}
	normLabel := func(x string) string { return panicLabelRe.ReplaceAllString(x, "(PANIC=M method: ") }
	if got, want := normLabel(canonP(p)), normLabel(canon(exp)); got != want {
		w.Violate("C17 rendering", "redact "+q(ro.out)+" canonical "+q(got)+", expected "+q(want)+" for "+cs.String()+" hook="+sprint(hooked), csf())
		return
	}
	if hooked {
		if fmt.Sprint(log.calls) != fmt.Sprint(tlog.calls) {
			w.Violate("C17 call-list", "hook calls "+fmt.Sprint(log.calls)+", expected "+fmt.Sprint(tlog.calls)+" for "+cs.String(), csf())
			return
		}
		w.Count("hook_calls_observed", int64(len(log.calls)))
	}
	if cs.Errorf {
		// the returned error is the %w operand (C15 covers this in depth)
		if ro.err == nil && len(cs.Pos) > 0 && cs.Pos[0].Shape == "top" && cs.Pos[0].Err.Class != "nilPErr" {
			w.Violate("C17 errorf-result", "HelperForErrorf returned a nil error for "+cs.String(), csf())
		}
	}
	if reachable > 0 {
		w.Nontrivial(hashStrs(sprint(hooked), cs.String()))
	}
	if idx%30011 == 3 {
		w.Sample(map[string]string{"case": cs.String(), "hook": sprint(hooked), "output_q": q(ro.out), "hook_calls": fmt.Sprint(log.calls)})
	}
}

func runC17(c *Ctx) {
	hooked := c.Phase == "hook"
	if hooked {
		redact.RegisterRedactErrorFn(theHook)
	}
	if redact.VerifHasErrorFn() != hooked {
		c.Inconclusive("hook configuration not as requested")
		return
	}
	c17panicPayloads(c, hooked)
	c17nestedCauses(c, hooked)
	c17numericErrors(c, hooked)
	// product: class x shape x verb x flags x wp (+ panicking hook)
	var cases []*c17case
	id := 0
	flags := []string{"", "+", "#", "-", "0", "+#"}
	wps := []struct {
		w, p   string
		wa, pa int
	}{{"", "", 0, 0}, {"9", "", 0, 0}, {"", ".2", 0, 0}, {"*", ".*", -7, 1}}
	for _, cl := range errClasses {
		for _, sh := range []string{"top", "slice", "errs", "map", "field", "embed", "ptr", "safe", "unsafe", "unexported", "unsafe-slice", "unsafe-field", "unsafe-map", "safe-slice", "safe-field"} {
			for _, v := range allVerbs {
				for _, f := range flags {
					for _, wp := range wps {
						id++
						cases = append(cases, &c17case{Dirs: []Dir{{Lit: "a ", Flags: f, Width: wp.w, Prec: wp.p, Verb: v, WArg: wp.wa, PArg: wp.pa}}, Tail: " z",
							Pos: []c17pos{{errSpec{cl, id % 900, false}, sh}}})
					}
				}
			}
			// hook panics; %w through HelperForErrorf; EXTRA operand
			id++
			cases = append(cases, &c17case{Dirs: []Dir{{Lit: "a ", Verb: "v"}}, Tail: " z", Pos: []c17pos{{errSpec{cl, id % 900, true}, sh}}})
			cases = append(cases, &c17case{Dirs: []Dir{{Lit: "a ", Verb: "+v"[1:], Flags: "+"}}, Tail: " z", Pos: []c17pos{{errSpec{cl, id % 900, true}, sh}}})
			if sh == "top" || sh == "safe" || sh == "unsafe" {
				cases = append(cases, &c17case{Dirs: []Dir{{Lit: "a ", Verb: "w"}}, Tail: " z", Pos: []c17pos{{errSpec{cl, id % 900, false}, sh}}, Errorf: true})
			}
			cases = append(cases, &c17case{Tail: "only literal", Pos: []c17pos{{errSpec{cl, id % 900, false}, sh}}, Extra: true})
		}
	}
	c.AddCount("product_cases", int64(len(cases)))
	c.ParallelFor(int64(len(cases)), func(w *Worker, i int64) { c17check(w, cases[i], hooked, i) })
	// random: several errors in one call
	n := c.pick(600000, 8000000)
	c.ParallelFor(n, func(w *Worker, i int64) {
		r := newRng(c.Seed, 0xc17, uint64(i))
		cs := &c17case{Tail: []string{"", ".", "\n"}[r.Intn(3)]}
		k := 1 + r.Intn(3)
		for j := 0; j < k; j++ {
			d := randDir(r, genOpts{}, r.Chance(1, 5))
			if d.PArg < 0 {
				d.PArg = 1
			}
			if d.WArg == 0 {
				d.WArg = 3
			}
			cs.Dirs = append(cs.Dirs, d)
			cs.Pos = append(cs.Pos, c17pos{errSpec{errClasses[r.Intn(len(errClasses))], j + 1 + 10*int(i%90), r.Chance(1, 12)}, c17shapes[r.Intn(len(c17shapes))]})
		}
		c17check(w, cs, hooked, i)
		w.Count("random_cases", 1)
	})
	if hooked {
		redact.RegisterRedactErrorFn(nil)
	}
	c.Extra("hook_installed", hooked)
}
