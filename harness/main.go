// rvmon: runtime monitors for cockroachdb/redact (see /verif/DESIGN.md).
//
// One invocation runs one monitor (property, phase) in this process with a
// number of worker goroutines and writes a JSON result file. The driver
// (/verif/check) builds this binary from /repo's working tree, runs the
// phases of a property as child processes, merges the results into the
// evidence file and prints VIOLATION / KNOWN-FINDING lines.
package main

import (
	"encoding/json"
	"flag"
	"fmt"
	"math/bits"
	"os"
	"runtime"
	"runtime/debug"
	"sort"
	"sync"
	"sync/atomic"
	"time"
)

// Violation is one refuting observation.
type Violation struct {
	Sig  string      `json:"sig"`  // normalised signature (for the known-findings filter)
	Msg  string      `json:"msg"`  // what was observed
	Case interface{} `json:"case"` // replayable case descriptor
}

// Result is what a monitor run reports.
type Result struct {
	Property     string                 `json:"property"`
	Phase        string                 `json:"phase"`
	Tier         string                 `json:"tier"`
	Seed         uint64                 `json:"seed"`
	Evaluations  int64                  `json:"evaluations"`
	Distinct     int64                  `json:"distinct_nontrivial"`
	Rule         string                 `json:"rule"`
	Exhaustive   bool                   `json:"exhaustive"`
	Bound        string                 `json:"bound,omitempty"`
	Samples      []interface{}          `json:"samples"`
	Counters     map[string]int64       `json:"counters"`
	Extra        map[string]interface{} `json:"extra,omitempty"`
	Violations   []Violation            `json:"violations"`
	NViolations  int64                  `json:"n_violations"`
	SigCounts    map[string]int         `json:"sig_counts"`
	Inconclusive string                 `json:"inconclusive,omitempty"`
	Assumptions  []string               `json:"assumptions,omitempty"`
	WallS        float64                `json:"wall_s"`
}

const bitmapBits = 1 << 28

// Ctx is the run context shared by the workers of one monitor run.
type Ctx struct {
	Prop, Phase, Tier string
	Seed              uint64
	Workers           int
	Scale             float64
	Replay            string

	mu       sync.Mutex
	res      Result
	sigSeen  map[string]int
	bitmap   []uint32
	nViol    atomic.Int64
	counters map[string]int64
}

// Worker is the per-goroutine state handed to case functions.
type Worker struct {
	C      *Ctx
	ID     int
	counts map[string]int64
	evals  int64
	nsamp  int
}

func (c *Ctx) thorough() bool { return c.Tier == "thorough" }

// pick returns q for the quick tier and t for the thorough tier, scaled.
func (c *Ctx) pick(q, t int64) int64 {
	n := q
	if c.thorough() {
		n = t
	}
	n = int64(float64(n) * c.Scale)
	if n < 1 {
		n = 1
	}
	return n
}

// Count adds n to a named counter (worker-local, merged at the end).
func (w *Worker) Count(name string, n int64) { w.counts[name] += n }

// Eval records n executions of the code under test.
func (w *Worker) Eval(n int64) { w.evals += n }

// Nontrivial records the hash of a case that is non-trivial by the monitor's rule.
func (w *Worker) Nontrivial(h uint64) {
	h = mix64(h)
	idx := h % bitmapBits
	word, bit := idx/32, uint32(1)<<(idx%32)
	p := &w.C.bitmap[word]
	if atomic.LoadUint32(p)&bit == 0 {
		atomic.OrUint32(p, bit)
	}
}

// Sample keeps a few written-out cases for the evidence file.
func (w *Worker) Sample(v interface{}) {
	if w.nsamp >= 2 {
		return
	}
	w.nsamp++
	w.C.mu.Lock()
	if len(w.C.res.Samples) < 12 {
		w.C.res.Samples = append(w.C.res.Samples, v)
	}
	w.C.mu.Unlock()
}

// Violate records a violation. At most 5 per signature and 60 in total are
// kept with their cases; all are counted.
func (w *Worker) Violate(sig, msg string, cs interface{}) { w.C.Violate(sig, msg, cs) }

func (c *Ctx) Violate(sig, msg string, cs interface{}) {
	c.nViol.Add(1)
	c.mu.Lock()
	defer c.mu.Unlock()
	c.sigSeen[sig]++
	if c.sigSeen[sig] > 5 || len(c.res.Violations) >= 60 {
		return
	}
	if len(msg) > 2000 {
		msg = msg[:2000] + "..."
	}
	c.res.Violations = append(c.res.Violations, Violation{Sig: sig, Msg: msg, Case: cs})
}

// Extra stores a key of the evidence "extra" section.
func (c *Ctx) Extra(k string, v interface{}) {
	c.mu.Lock()
	if c.res.Extra == nil {
		c.res.Extra = map[string]interface{}{}
	}
	c.res.Extra[k] = v
	c.mu.Unlock()
}

func (c *Ctx) AddCount(name string, n int64) {
	c.mu.Lock()
	c.counters[name] += n
	c.mu.Unlock()
}

func (c *Ctx) Inconclusive(why string) {
	c.mu.Lock()
	if c.res.Inconclusive == "" {
		c.res.Inconclusive = why
	}
	c.mu.Unlock()
}

// ParallelFor runs f(w, i) for i in [0, n) on the workers. Indices are handed
// out in blocks; what a case does depends only on (seed, i), never on which
// worker runs it.
func (c *Ctx) ParallelFor(n int64, f func(w *Worker, i int64)) {
	var next atomic.Int64
	const block = 64
	var wg sync.WaitGroup
	nw := c.Workers
	if int64(nw) > n {
		nw = int(n)
	}
	if nw < 1 {
		nw = 1
	}
	for id := 0; id < nw; id++ {
		wg.Add(1)
		go func(id int) {
			defer wg.Done()
			w := &Worker{C: c, ID: id, counts: map[string]int64{}}
			defer func() {
				c.mu.Lock()
				for k, v := range w.counts {
					c.counters[k] += v
				}
				c.res.Evaluations += w.evals
				c.mu.Unlock()
			}()
			for {
				lo := next.Add(block) - block
				if lo >= n {
					return
				}
				hi := lo + block
				if hi > n {
					hi = n
				}
				for i := lo; i < hi; i++ {
					t0 := time.Now()
					f(w, i)
					if d := time.Since(t0); d > 2*time.Second {
						fmt.Fprintf(os.Stderr, "slow case: index %d took %v\n", i, d)
						w.Count("slow_cases(>2s)", 1)
					}
				}
			}
		}(id)
	}
	wg.Wait()
}

// Serial runs f on a single worker in this goroutine.
func (c *Ctx) Serial(f func(w *Worker)) {
	w := &Worker{C: c, ID: 0, counts: map[string]int64{}}
	f(w)
	c.mu.Lock()
	for k, v := range w.counts {
		c.counters[k] += v
	}
	c.res.Evaluations += w.evals
	c.mu.Unlock()
}

type monitor struct {
	phases func(tier string) []string // phases the driver has to run (child process each)
	run    func(c *Ctx)
	rule   string
}

var monitors = map[string]*monitor{}

func register(id string, m *monitor) { monitors[id] = m }

func main() {
	prop := flag.String("prop", "", "property id")
	phase := flag.String("phase", "", "phase of the property's monitor")
	tier := flag.String("tier", "quick", "quick|thorough")
	seed := flag.Uint64("seed", 1, "seed")
	workers := flag.Int("workers", runtime.NumCPU(), "worker goroutines")
	out := flag.String("out", "", "result file (JSON)")
	scale := flag.Float64("scale", 1, "multiplier on case counts")
	replay := flag.String("replay", "", "replay file: run only the case it describes")
	listPhases := flag.Bool("phases", false, "print the phases of -prop for -tier and exit")
	flag.Parse()

	m := monitors[*prop]
	if m == nil {
		fmt.Fprintf(os.Stderr, "unknown property %q\n", *prop)
		os.Exit(2)
	}
	if *listPhases {
		ph := []string{"main"}
		if m.phases != nil {
			ph = m.phases(*tier)
		}
		for _, p := range ph {
			fmt.Println(p)
		}
		return
	}
	debug.SetMaxStack(256 << 20)
	c := &Ctx{Prop: *prop, Phase: *phase, Tier: *tier, Seed: *seed, Workers: *workers, Scale: *scale, Replay: *replay,
		sigSeen: map[string]int{}, bitmap: make([]uint32, bitmapBits/32), counters: map[string]int64{}}
	c.res = Result{Property: *prop, Phase: *phase, Tier: *tier, Seed: *seed, Rule: m.rule}
	t0 := time.Now()
	m.run(c)
	c.res.WallS = time.Since(t0).Seconds()
	var d int64
	for _, w := range c.bitmap {
		d += int64(bits.OnesCount32(w))
	}
	c.res.Distinct = d
	c.res.Counters = c.counters
	c.res.NViolations = c.nViol.Load()
	c.res.SigCounts = c.sigSeen
	if c.res.Violations == nil {
		c.res.Violations = []Violation{}
	}
	if c.res.Samples == nil {
		c.res.Samples = []interface{}{}
	}
	sort.SliceStable(c.res.Violations, func(i, j int) bool { return c.res.Violations[i].Sig < c.res.Violations[j].Sig })
	b, err := json.MarshalIndent(&c.res, "", " ")
	if err != nil {
		fmt.Fprintf(os.Stderr, "marshal: %v\n", err)
		os.Exit(2)
	}
	if *out == "" {
		os.Stdout.Write(b)
		fmt.Println()
	} else if err := os.WriteFile(*out, b, 0o644); err != nil {
		fmt.Fprintf(os.Stderr, "write: %v\n", err)
		os.Exit(2)
	}
	if c.res.NViolations > 0 {
		os.Exit(1)
	}
	if c.res.Inconclusive != "" {
		os.Exit(3)
	}
}

// ---- deterministic PRNG -------------------------------------------------

func mix64(x uint64) uint64 {
	x += 0x9e3779b97f4a7c15
	x = (x ^ (x >> 30)) * 0xbf58476d1ce4e5b9
	x = (x ^ (x >> 27)) * 0x94d049bb133111eb
	return x ^ (x >> 31)
}

// Rng is splitmix64.
type Rng struct{ s uint64 }

func newRng(parts ...uint64) *Rng {
	s := uint64(0x1234567)
	for _, p := range parts {
		s = mix64(s ^ p)
	}
	return &Rng{s}
}

func (r *Rng) U64() uint64 {
	r.s += 0x9e3779b97f4a7c15
	z := r.s
	z = (z ^ (z >> 30)) * 0xbf58476d1ce4e5b9
	z = (z ^ (z >> 27)) * 0x94d049bb133111eb
	return z ^ (z >> 31)
}

func (r *Rng) Intn(n int) int {
	if n <= 0 {
		return 0
	}
	return int(r.U64() % uint64(n))
}

func (r *Rng) Bool() bool { return r.U64()&1 == 1 }

// Chance is true with probability num/den.
func (r *Rng) Chance(num, den int) bool { return r.Intn(den) < num }

func hashStr(s string) uint64 {
	h := uint64(14695981039346656037)
	for i := 0; i < len(s); i++ {
		h ^= uint64(s[i])
		h *= 1099511628211
	}
	return h
}

func hashStrs(ss ...string) uint64 {
	h := uint64(14695981039346656037)
	for _, s := range ss {
		for i := 0; i < len(s); i++ {
			h ^= uint64(s[i])
			h *= 1099511628211
		}
		h ^= 0xff
		h *= 1099511628211
	}
	return h
}

// q quotes a string for messages.
func q(s string) string { return fmt.Sprintf("%q", s) }
