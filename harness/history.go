package main

// SafeWriter call histories: representation, generators, the four
// implementations they are applied to, and the reference model (C09, C13,
// also used by C01/C03/C07/C11 as a source of outputs).

import (
	"fmt"
	"io"
	"strconv"
	"strings"
	"unicode/utf8"

	"github.com/cockroachdb/redact"
	"github.com/cockroachdb/redact/interfaces"
)

// Op is one call on a SafeWriter / io.Writer.
type Op struct {
	M string  `json:"m"`           // method
	S string  `json:"s,omitempty"` // string / bytes payload, format for Printf
	R int32   `json:"r,omitempty"` // rune payload
	B byte    `json:"b,omitempty"` // byte payload
	I int64   `json:"i,omitempty"` // SafeInt / SafeUint payload
	F float64 `json:"f,omitempty"`
	A string  `json:"a,omitempty"` // argument form for Print/Printf: "str","safe","rs","int","mixed"
	// V is false when the payload is outside the domain of the two equalities
	// (invalid UTF-8, invalid rune, non-ASCII single byte).
	V bool `json:"v"`
}

var opMethods = []string{"SafeString", "SafeInt", "SafeUint", "SafeFloat", "SafeRune", "SafeByte", "SafeBytes",
	"UnsafeString", "UnsafeRune", "UnsafeByte", "UnsafeBytes", "Print", "Printf",
	"Write", "WriteString", "WriteByte", "WriteRune"}

// Payload classes. '@' is replaced by a letter unique to the op's position.
var strPayloadsValid = []string{"@", "", " ", "\n", "@\n@", "\n\n@", startM + "@", "@" + endM, redactedM, "é@日", "?@", "@ \n", "@º", "‰@", "※", "@☺", "⁹",
	// valid runes whose encoding ENDS in the last two bytes of a marker (E3 80 BA, E1 80 BA, F0 90 80 BA, E3 80 B9)
	"@〺", "\u103a", "@\U0001003a", "〹@"}
var strPayloadsInvalid = []string{"\xe2", "@\xe2\x80", "\x80\xb9", "\xba@", "\xff", "\xe2\x80\n", "\n\xe2"}
var runePayloadsValid = []int32{'a', '\n', ' ', 0x2039, 0x203a, 0xe9, 0x1f6d1, '?', 0, 0xba, 0x2030, 0x203b, 0x263a, 0x2079, 0x303a, 0x103a, 0x1003a, 0x3039}
var runePayloadsInvalid = []int32{-1, 0xd800, 0xdfff, 0x110000, -2147483648, 2147483647}
var bytePayloadsValid = []byte{'a', '\n', ' ', '?', 0}
var bytePayloadsInvalid = []byte{0xe2, 0x80, 0xb9, 0xba, 0xff, 0xc3}
var intPayloads = []int64{0, -5, 123456, -9223372036854775808, 9223372036854775807}
var floatPayloads = []float64{0, -1.5, 1e100, 3, 1073741824, float64(float32(0.1)), 0.1} // incl. float64 values that are exactly representable as float32
var printForms = []string{"str", "safe", "rs", "int", "mixed", "none"}

func uniq(tmpl string, pos int) string {
	return strings.ReplaceAll(tmpl, "@", string(rune('A'+pos%26)))
}

// opVariants lists the payload variants of a method: (valid ones, invalid ones).
func opVariants(m string, pos int) (valid, invalid []Op) {
	switch m {
	case "SafeString", "UnsafeString", "Write", "WriteString", "SafeBytes", "UnsafeBytes":
		for _, s := range strPayloadsValid {
			valid = append(valid, Op{M: m, S: uniq(s, pos), V: true})
		}
		for _, s := range strPayloadsInvalid {
			invalid = append(invalid, Op{M: m, S: uniq(s, pos)})
		}
	case "SafeInt", "SafeUint":
		for _, i := range intPayloads {
			valid = append(valid, Op{M: m, I: i, V: true})
		}
	case "SafeFloat":
		for _, f := range floatPayloads {
			valid = append(valid, Op{M: m, F: f, V: true})
		}
	case "SafeRune", "UnsafeRune", "WriteRune":
		for _, r := range runePayloadsValid {
			valid = append(valid, Op{M: m, R: r, V: true})
		}
		for _, r := range runePayloadsInvalid {
			invalid = append(invalid, Op{M: m, R: r})
		}
	case "SafeByte", "UnsafeByte", "WriteByte":
		for _, b := range bytePayloadsValid {
			valid = append(valid, Op{M: m, B: b, V: true})
		}
		for _, b := range bytePayloadsInvalid {
			invalid = append(invalid, Op{M: m, B: b})
		}
	case "Print", "Printf":
		for _, a := range printForms {
			for _, s := range []string{"@", "@\n", startM + "@" + endM, ""} {
				valid = append(valid, Op{M: m, A: a, S: uniq(s, pos), V: true})
			}
		}
		invalid = append(invalid, Op{M: m, A: "str", S: uniq("@\xe2", pos)}, Op{M: m, A: "safe", S: uniq("\xe2\x80@", pos)})
	}
	return
}

// allOps is the op alphabet for exhaustive short histories: per method, a
// fixed selection of payload classes.
func allOps(pos int, withInvalid bool) []Op {
	var out []Op
	for _, m := range opMethods {
		v, inv := opVariants(m, pos)
		out = append(out, v...)
		if withInvalid {
			out = append(out, inv...)
		}
	}
	return out
}

// longTails / contPayloads: a long payload (more than the buffer's 64-byte bootstrap size pending in one mode) that may end
// inside a multi-byte sequence or a marker, and payloads that continue such a sequence.
var longTails = []string{"", "é", "\xc3", "\xe2", "\xe2\x80", "\n", " "}
var contPayloads = []string{"\xa9", "\xb9", "\x80\xb9", "\x80\xba@", "\xba"}
var stringMethods = []string{"SafeString", "UnsafeString", "Write", "WriteString", "SafeBytes", "UnsafeBytes"}

func randOp(r *Rng, pos int, pInvalid int) Op {
	if pInvalid > 0 && r.Chance(1, 24) {
		// outside the exhaustive alphabet: sizes and split sequences
		m := stringMethods[r.Intn(len(stringMethods))]
		var s string
		if r.Bool() {
			s = strings.Repeat("x", []int{60, 62, 63, 64, 65, 70, 130, 200}[r.Intn(8)]) + uniq("@", pos) + longTails[r.Intn(len(longTails))]
		} else {
			s = uniq(contPayloads[r.Intn(len(contPayloads))], pos)
		}
		return Op{M: m, S: s, V: utf8.ValidString(s)}
	}
	m := opMethods[r.Intn(len(opMethods))]
	v, inv := opVariants(m, pos)
	if len(inv) > 0 && r.Intn(100) < pInvalid {
		return inv[r.Intn(len(inv))]
	}
	return v[r.Intn(len(v))]
}

func randHistory(r *Rng, maxLen int, pInvalid int) []Op {
	n := 1 + r.Intn(maxLen)
	if maxLen >= 20 && r.Chance(1, 80) {
		n = 150 + r.Intn(300) // long enough to cross several buffer growth steps
	}
	h := make([]Op, n)
	for i := range h {
		h[i] = randOp(r, i, pInvalid)
	}
	return h
}

func historyValid(h []Op) bool {
	for _, o := range h {
		if !o.V {
			return false
		}
	}
	return true
}

func historyString(h []Op) string {
	var b strings.Builder
	for i, o := range h {
		if i > 0 {
			b.WriteByte(';')
		}
		b.WriteString(opString(o))
	}
	return b.String()
}

func opString(o Op) string {
	switch o.M {
	case "SafeInt", "SafeUint":
		return o.M + "(" + strconv.FormatInt(o.I, 10) + ")"
	case "SafeFloat":
		return o.M + "(" + strconv.FormatFloat(o.F, 'g', -1, 64) + ")"
	case "SafeRune", "UnsafeRune", "WriteRune":
		return o.M + "(" + strconv.Itoa(int(o.R)) + ")"
	case "SafeByte", "UnsafeByte", "WriteByte":
		return o.M + "(" + strconv.Itoa(int(o.B)) + ")"
	case "Print", "Printf":
		return o.M + "[" + o.A + "](" + strconv.Quote(o.S) + ")"
	}
	return o.M + "(" + strconv.Quote(o.S) + ")"
}

// printArgs builds the argument list (and, for Printf, the format) of a
// Print/Printf op. The redactable string operand is produced by the library
// itself (EscapeBytes), as the properties require.
func printArgs(o Op) (format string, args []interface{}) {
	switch o.A {
	case "str":
		return "%s", []interface{}{o.S}
	case "safe":
		return "%v", []interface{}{redact.Safe(o.S)}
	case "rs":
		return "%v", []interface{}{redact.EscapeBytes([]byte(o.S)).ToString()}
	case "int":
		return "%d", []interface{}{len(o.S)}
	case "mixed":
		return "l" + strings.ReplaceAll(o.S, "%", "%%") + "=%v,%s", []interface{}{redact.Safe(o.S), o.S}
	}
	return strings.ReplaceAll(o.S, "%", "%%"), nil
}

// piece is one element of the reference rendering of a history.
type piece struct {
	kind int // 0 safe, 1 unsafe, 2 raw (already redactable)
	text string
}

// modelPieces is the reference meaning of an op (valid domain only).
func modelPieces(o Op) []piece {
	switch o.M {
	case "SafeString", "SafeBytes":
		return []piece{{0, o.S}}
	case "SafeInt":
		return []piece{{0, strconv.FormatInt(o.I, 10)}}
	case "SafeUint":
		return []piece{{0, strconv.FormatUint(uint64(o.I), 10)}}
	case "SafeFloat":
		return []piece{{0, fmt.Sprint(o.F)}}
	case "SafeRune":
		return []piece{{0, string(rune(o.R))}}
	case "SafeByte":
		return []piece{{0, string([]byte{o.B})}}
	case "UnsafeString", "UnsafeBytes", "Write", "WriteString":
		return []piece{{1, o.S}}
	case "UnsafeRune", "WriteRune":
		return []piece{{1, string(rune(o.R))}}
	case "UnsafeByte", "WriteByte":
		return []piece{{1, string([]byte{o.B})}}
	case "Print", "Printf":
		switch o.A {
		case "str":
			return []piece{{1, o.S}}
		case "safe":
			return []piece{{0, o.S}}
		case "rs":
			return []piece{{2, wrapUnsafe(o.S)}}
		case "int":
			return []piece{{1, strconv.Itoa(len(o.S))}}
		case "mixed":
			if o.M == "Print" {
				// Sprint(Safe(s), s): no space is added between operands when one is a string.
				return []piece{{0, o.S}, {1, o.S}}
			}
			return []piece{{0, "l" + o.S + "="}, {0, o.S}, {0, ","}, {1, o.S}}
		default:
			if o.M == "Print" {
				return nil
			}
			return []piece{{0, o.S}}
		}
	}
	panic("modelPieces: " + o.M)
}

// modelHistory is the reference result of a history, in canonical form.
func modelHistory(h []Op) string {
	var b strings.Builder
	for _, o := range h {
		for _, p := range modelPieces(o) {
			switch p.kind {
			case 0:
				b.WriteString(esc(p.text))
			case 1:
				b.WriteString(wrapUnsafe(p.text))
			default:
				b.WriteString(p.text)
			}
		}
	}
	return canon(b.String())
}

// stripModel / safeModel are the two projections the statement of C09 names.
func stripModel(h []Op) string {
	var b strings.Builder
	for _, o := range h {
		for _, p := range modelPieces(o) {
			if p.kind == 2 {
				b.WriteString(stripTokens(p.text))
			} else {
				b.WriteString(esc(p.text))
			}
		}
	}
	return b.String()
}

func safeModel(h []Op) string {
	var b strings.Builder
	for _, o := range h {
		for _, p := range modelPieces(o) {
			switch p.kind {
			case 0:
				b.WriteString(esc(p.text))
			case 1:
				b.WriteString(lfOnly(p.text))
			default:
				b.WriteString(safeOnly(parse(p.text)))
			}
		}
	}
	return b.String()
}

// swTarget is what an op is applied to. w is the SafeWriter side; the plain
// writer side is optional per method.
type swTarget struct {
	w  interfaces.SafeWriter
	wr io.Writer
	ws io.StringWriter
	wb io.ByteWriter
	wu interface{ WriteRune(rune) error }
}

func targetOf(x interface{}) swTarget {
	t := swTarget{}
	t.w, _ = x.(interfaces.SafeWriter)
	t.wr, _ = x.(io.Writer)
	t.ws, _ = x.(io.StringWriter)
	t.wb, _ = x.(io.ByteWriter)
	t.wu, _ = x.(interface{ WriteRune(rune) error })
	return t
}

// applyOp performs one op. Methods the target does not have on its plain
// writer side are mapped to the closest one it has (WriteByte/WriteRune on a
// printer go through Write), which the model treats identically.
// scribble overwrites a byte slice that was handed to a write call (with marker bytes, to make a retained reference visible).
func scribble(b []byte) {
	for i := range b {
		b[i] = "\xe2\x80\xb9#"[i%4]
	}
}

func applyOp(t swTarget, o Op) {
	switch o.M {
	case "SafeString":
		t.w.SafeString(interfaces.SafeString(o.S))
	case "SafeInt":
		t.w.SafeInt(interfaces.SafeInt(o.I))
	case "SafeUint":
		t.w.SafeUint(interfaces.SafeUint(uint64(o.I)))
	case "SafeFloat":
		t.w.SafeFloat(interfaces.SafeFloat(o.F))
	case "SafeRune":
		t.w.SafeRune(interfaces.SafeRune(o.R))
	case "SafeByte":
		t.w.SafeByte(interfaces.SafeByte(o.B))
	case "SafeBytes":
		b := interfaces.SafeBytes(o.S)
		t.w.SafeBytes(b)
		scribble(b) // the slice stays the caller's: reusing it must not reach what was written
	case "UnsafeString":
		t.w.UnsafeString(o.S)
	case "UnsafeRune":
		t.w.UnsafeRune(rune(o.R))
	case "UnsafeByte":
		t.w.UnsafeByte(o.B)
	case "UnsafeBytes":
		b := []byte(o.S)
		t.w.UnsafeBytes(b)
		scribble(b)
	case "PrintLiteralRedactable":
		// a redactable made by the library from a constant format: its bytes are the literal's, escaped
		t.w.Print(redact.Sprintf(strings.ReplaceAll(o.S, "%", "%%")))
	case "Print":
		_, args := printArgs(o)
		t.w.Print(args...)
	case "Printf":
		f, args := printArgs(o)
		t.w.Printf(f, args...)
	case "Write":
		b := []byte(o.S)
		t.wr.Write(b)
		scribble(b)
	case "WriteString":
		if t.ws != nil {
			t.ws.WriteString(o.S)
		} else {
			t.wr.Write([]byte(o.S))
		}
	case "WriteByte":
		if t.wb != nil {
			t.wb.WriteByte(o.B)
		} else if o.B < utf8.RuneSelf {
			t.wr.Write([]byte{o.B})
		} else {
			// a printer has no WriteByte; a single non-ASCII byte sent through
			// Write is not the same operation, use UnsafeByte there.
			t.w.UnsafeByte(o.B)
		}
	case "WriteRune":
		if t.wu != nil {
			t.wu.WriteRune(rune(o.R))
		} else {
			t.w.UnsafeRune(rune(o.R))
		}
	default:
		panic("applyOp: " + o.M)
	}
}

// runOnBuilder applies a history to a fresh StringBuilder.
func runOnBuilder(h []Op) (out string, pan interface{}) {
	defer func() { pan = recover() }()
	var b redact.StringBuilder
	t := targetOf(&b)
	for _, o := range h {
		applyOp(t, o)
	}
	return string(b.RedactableString()), nil
}

// runOnSprintfn applies a history to the printer handed to Sprintfn.
func runOnSprintfn(h []Op) (out string, pan interface{}) {
	defer func() { pan = recover() }()
	return string(redact.Sprintfn(func(p redact.SafePrinter) {
		t := targetOf(p)
		for _, o := range h {
			applyOp(t, o)
		}
	})), nil
}

type histFormatter struct{ h []Op }

func (f histFormatter) SafeFormat(p redact.SafePrinter, _ rune) {
	t := targetOf(p)
	for _, o := range f.h {
		applyOp(t, o)
	}
}

// runOnSafeFormat applies a history to the printer handed to a SafeFormat method.
func runOnSafeFormat(h []Op) (out string, pan interface{}) {
	defer func() { pan = recover() }()
	return string(redact.Sprint(histFormatter{h})), nil
}

// runOnManual applies a history to a ManualBuffer with explicit SetMode calls.
func runOnManual(h []Op) (out string, pan interface{}) {
	defer func() { pan = recover() }()
	var b redact.ManualBuffer
	for _, o := range h {
		applyManual(&b, o)
	}
	return string(b.RedactableString()), nil
}

// Buffer modes (the type lives in an internal package; untyped constants
// convert implicitly): 0 UnsafeEscaped, 1 SafeEscaped, 2 SafeRaw/PreRedactable.
func setMode(b *redact.ManualBuffer, pieceKind int) {
	switch pieceKind {
	case 0:
		b.SetMode(1)
	case 1:
		b.SetMode(0)
	default:
		b.SetMode(2)
	}
}

func applyManual(b *redact.ManualBuffer, o Op) {
	switch o.M {
	case "SafeRune":
		setMode(b, 0)
		b.WriteRune(rune(o.R))
	case "SafeByte":
		setMode(b, 0)
		b.WriteByte(o.B)
	case "UnsafeRune", "WriteRune":
		setMode(b, 1)
		b.WriteRune(rune(o.R))
	case "UnsafeByte", "WriteByte":
		setMode(b, 1)
		b.WriteByte(o.B)
	case "UnsafeBytes", "Write":
		setMode(b, 1)
		b.Write([]byte(o.S))
	case "UnsafeString", "WriteString":
		setMode(b, 1)
		b.WriteString(o.S)
	case "SafeBytes":
		setMode(b, 0)
		b.Write([]byte(o.S))
	default:
		for _, p := range modelPieces(o) {
			setMode(b, p.kind)
			b.WriteString(p.text)
		}
	}
}
