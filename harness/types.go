package main

// The method-bearing types of the value universe (see universe.go).

import (
	"errors"
	"fmt"
	"io"
	"strings"

	"github.com/cockroachdb/redact"
	"github.com/cockroachdb/redact/interfaces"
)

// ---- passive carriers ----------------------------------------------------

type tStringer struct{ s string }

func (t tStringer) String() string { return t.s }

type tPStringer struct{ s string }

func (t *tPStringer) String() string { return t.s } // nil receiver: dereference panics -> "<nil>"

type tErr struct{ s string }

func (t tErr) Error() string { return t.s }

type tPErr struct{ s string }

func (t *tPErr) Error() string { return t.s }

type tErrStringer struct{ e, s string }

func (t tErrStringer) Error() string  { return t.e }
func (t tErrStringer) String() string { return t.s }

type tGoStringer struct{ s string }

func (t tGoStringer) GoString() string { return t.s }

type tGoStrStringer struct{ g, s string }

func (t tGoStrStringer) GoString() string { return t.g }
func (t tGoStrStringer) String() string   { return t.s }

// tFmter writes its payload raw, whatever the directive.
type tFmter struct{ s string }

func (t tFmter) Format(f fmt.State, verb rune) { io.WriteString(f, t.s) }

// tPadFmter pads by hand, the way math/big's Format methods do: the blanks, the text (in two pieces) and, under %x,
// a nested Fprintf all arrive as separate writes on the fmt.State.
type tPadFmter struct{ s string }

func (t tPadFmter) Format(f fmt.State, verb rune) {
	text := t.s
	if verb == 'x' {
		text = fmt.Sprintf("%x", t.s)
	}
	pad := 0
	if w, ok := f.Width(); ok {
		pad = w - len([]rune(text))
		if pad > 300 {
			pad = 300
		}
	}
	blanks := func() {
		for i := 0; i < pad; i++ {
			f.Write([]byte{' '})
		}
	}
	if !f.Flag('-') {
		blanks()
	}
	rs := []rune(text) // (invalid bytes become U+FFFD: the pieces are cut at rune boundaries)
	f.Write([]byte(string(rs[:len(rs)/2])))
	io.WriteString(f, string(rs[len(rs)/2:]))
	if f.Flag('-') {
		blanks()
	}
}

// tErrFmter is an error that is also a Formatter (the Formatter wins).
type tErrFmter struct{ e, s string }

func (t tErrFmter) Error() string                 { return t.e }
func (t tErrFmter) Format(f fmt.State, verb rune) { io.WriteString(f, t.s) }

// tFmtFlags prints the directive it sees; guard selects whether width and
// precision are read with or without checking the ok result.
type tFmtFlags struct {
	tag   string
	guard bool
}

func (t tFmtFlags) Format(f fmt.State, verb rune) {
	var b strings.Builder
	b.WriteString(t.tag)
	for _, c := range "+-# 0" {
		if f.Flag(int(c)) {
			b.WriteRune(c)
		}
	}
	w, wok := f.Width()
	p, pok := f.Precision()
	if t.guard {
		if wok && w != 0 {
			fmt.Fprintf(&b, "w%d", w)
		}
		if pok {
			fmt.Fprintf(&b, "p%d", p)
		}
	} else {
		fmt.Fprintf(&b, "w%dp%d", w, p)
	}
	b.WriteRune(verb)
	io.WriteString(f, b.String())
}

// tFmtFwd forwards the directive to its content (fmt.FormatString is stdlib).
type tFmtFwd struct{ v interface{} }

func (t tFmtFwd) Format(f fmt.State, verb rune) { fmt.Fprintf(f, fmt.FormatString(f, verb), t.v) }

// ---- panicking -------------------------------------------------------------

// panicSpec says what a method panics with.
//
//	0 panic(string)  1 panic(error)  2 panic(Stringer)  3 runtime error
//	4 panic(value whose Error method always panics)
//	5 panic(value whose Error method panics the first k times it is called)
type panicSpec struct {
	mode int
	msg  string
	k    *int
}

type tBadPayload struct {
	msg string
	k   *int // nil: always panics
}

func (b tBadPayload) Error() string {
	if b.k == nil {
		panic("payload:" + b.msg)
	}
	if *b.k > 0 {
		*b.k--
		panic("payload:" + b.msg)
	}
	return b.msg
}

func (s panicSpec) fire() {
	switch s.mode {
	case 0:
		panic(s.msg)
	case 1:
		panic(errors.New(s.msg))
	case 2:
		panic(tStringer{s.msg})
	case 3:
		var m map[string]int
		m[s.msg] = 1 // assignment to entry in nil map
	case 4:
		panic(tBadPayload{msg: s.msg})
	case 6:
		// a typed nil pointer whose method dereferences its receiver: printed as <nil>
		panic((*tPStringer)(nil))
	case 7:
		panic([]*tPErr{nil})
	case 8:
		// an error that is also a Formatter: the payload is printed like any operand (its Format method wins)
		panic(tErrFmter{"E:" + s.msg, s.msg})
	case 9:
		// a runtime error whose text depends on the (unsafe) data: an index taken from the message
		idx := 1
		if len(s.msg) > 0 {
			idx += int(s.msg[0])
		}
		_ = make([]int, 1)[idx]
	default:
		panic(tBadPayload{msg: s.msg, k: s.k})
	}
}

type tPanicStringer struct{ ps panicSpec }

func (t tPanicStringer) String() string { t.ps.fire(); return "unreachable" }

type tPanicErr struct{ ps panicSpec }

func (t tPanicErr) Error() string { t.ps.fire(); return "unreachable" }

type tPanicGoStr struct{ ps panicSpec }

func (t tPanicGoStr) GoString() string { t.ps.fire(); return "unreachable" }

// tPanicFmter writes part of its output, then panics.
type tPanicFmter struct {
	partial string
	ps      panicSpec
}

func (t tPanicFmter) Format(f fmt.State, verb rune) {
	io.WriteString(f, t.partial)
	t.ps.fire()
}

// ---- redact-specific ---------------------------------------------------------

type tSafeMsg struct{ s string }

func (t tSafeMsg) SafeMessage() string { return t.s }

// SafeValue-marked named types of several kinds.
type tSVInt int

func (tSVInt) SafeValue() {}

type tSVStr string

func (tSVStr) SafeValue() {}

type tSVFloat float64

func (tSVFloat) SafeValue() {}

type tSVBytes []byte

func (tSVBytes) SafeValue() {}

type tSVStruct struct {
	A interface{}
	B interface{}
}

func (tSVStruct) SafeValue() {}

type tSVSlice []interface{}

func (tSVSlice) SafeValue() {}

// tSVStringer is a SafeValue with a String method.
type tSVStringer struct{ s string }

func (tSVStringer) SafeValue()       {}
func (t tSVStringer) String() string { return t.s }

// Types used with RegisterSafeType (a configuration, see registry configs).
type tRegInt int

type tRegStr string

func (t tRegStr) String() string { return "R:" + string(t) }

type tRegStruct struct {
	A interface{}
	N int
}

type tRegDur int64

func (t tRegDur) String() string { return fmt.Sprintf("%dtick", int64(t)) }

// ---- plain named types and structs -------------------------------------------

type tNInt int
type tNStr string
type tNBool bool
type tNFloat float64
type tNBytes []byte
type tNUint8 uint8

type tS2 struct {
	A interface{}
	B interface{}
}

type tS3 struct {
	X interface{}
	y interface{}
	Z interface{}
}

type tSTyped struct {
	I int
	S string
	B []byte
	F float64
	P *int
}

type tSUnexp struct {
	a int
	b string
	c interface{}
}

type tSEmbed struct {
	tS2
	N interface{}
}

type tSErrField struct {
	Err error
	V   interface{}
}

// ---- SafeFormatter scripts -----------------------------------------------------

// tSafeFmt executes a script of SafeWriter calls (see universe.go: step kinds).
//
// The build context is reached through a func value: when the struct is
// printed by reflection (bad verb, Unsafe wrapper) a func prints as one
// address, whereas a pointer would dump the harness's own bookkeeping.
type tSafeFmt struct {
	steps []*D
	bc    func() *buildCtx
}

func (t tSafeFmt) SafeFormat(p redact.SafePrinter, verb rune) {
	bc := t.bc()
	for _, st := range t.steps {
		bc.runStep(p, st, verb)
	}
}

// tSafeFmtErr is a SafeFormatter that is also an error (SafeFormat wins over the hook).
type tSafeFmtErr struct{ tSafeFmt }

func (t tSafeFmtErr) Error() string { return "safefmt-error-text" }

// tSafeFmtTwin is the fmt-side stand-in of a script: the same steps on a
// fmt.State, unsafe extents bracketed with \x01 ... \x02.
type tSafeFmtTwin struct {
	steps []*D
	bc    *buildCtx
	ctx   int
}

func (t tSafeFmtTwin) Format(f fmt.State, verb rune) {
	for _, st := range t.steps {
		t.bc.runStepTwin(f, st, verb, t.ctx)
	}
}

// brk is the bracket stand-in of an unsafe leaf on the fmt side: it prints
// \x01, the value under the forwarded directive, \x02.
type brk struct{ v interface{} }

func (b brk) Format(f fmt.State, verb rune) {
	io.WriteString(f, "\x01")
	fmt.Fprintf(f, fmt.FormatString(f, verb), b.v)
	io.WriteString(f, "\x02")
}

// strTwin is the fmt-side stand-in of a SafeMessager: a non-string type (so
// that Sprint spaces operands as it does for the real value) that prints its
// text under the forwarded directive.
type strTwin struct{ s string }

func (t strTwin) Format(f fmt.State, verb rune) { fmt.Fprintf(f, fmt.FormatString(f, verb), t.s) }

// placeholder stands for a redactable operand on the fmt side; it prints a
// token that is substituted by the redactable itself afterwards.
type placeholder struct{ id int }

func (p placeholder) Format(f fmt.State, verb rune) { fmt.Fprintf(f, "\x03%d\x03", p.id) }

// interface checks
var (
	_ interfaces.SafeFormatter = tSafeFmt{}
	_ interfaces.SafeValue     = tSVInt(0)
	_ fmt.Formatter            = brk{}
)
