package main

// C11 — printing never fails: all inputs accepted, user-method panics contained.

import (
	"reflect"
	"regexp"
	"strings"
	"sync"
	"unsafe"

	"github.com/cockroachdb/redact"
	"github.com/cockroachdb/redact/interfaces"
)

func init() {
	register("C11", &monitor{
		run: runC11,
		rule: "(1) parameter-domain edges enumerated: every surrogate, negative, out-of-range and boundary rune for every rune-taking method and all 256 bytes for every byte-taking method of StringBuilder, the SafePrinter (Sprintfn and SafeFormat) and ManualBuffer in every mode, each in 5 buffer states (boundary values also with the buffer filled to within a few bytes of its capacity steps); every reflect.Kind, nil and typed nil for JoinTo; every prefix of 46 hostile formats x 11 operand lists; nil and typed-nil operands through all routes; " +
			"(2) user methods that panic at every position of a script (SafeFormat, SafeMessage, String, Error, Format, GoString; 10 payload modes (incl. a typed nil pointer whose own method dereferences it, alone and inside a slice)), at top level, between literals, inside containers and inside nested Print/Printf; " +
			"oracle: no panic escapes a public call (except where the payload's own printing panics, as in fmt), output well-formed and line-safe, text written before the failing element identical to the text of the same call cut at that element, PANIC= report in place with the payload inside an envelope, text after it intact; " +
			"non-trivial = an edge value outside the valid domain or a contained panic was observed; distinct = distinct cases",
	})
}

var panicReportRe = regexp.MustCompile(`%!v\(PANIC=[A-Za-z]+ method: `)

type tSafeMsgPanic struct{ ps panicSpec }

func (t tSafeMsgPanic) SafeMessage() string { t.ps.fire(); return "unreachable" }

// guard runs f and reports an escaping panic as a violation.
func guard(w *Worker, sig, what string, cs func() interface{}, f func()) (ok bool) {
	defer func() {
		if r := recover(); r != nil {
			w.Violate("C11 "+sig, "panic escaped from "+what+": "+pvalString(r), cs())
			ok = false
		}
	}()
	f()
	return true
}

func checkOut(w *Worker, out, what string, cs func() interface{}) bool {
	p := parse(out)
	if !p.WellFormed || !p.LineSafe {
		w.Violate("C11 output", what+": output "+q(out)+" not well-formed/line-safe", cs())
		return false
	}
	return true
}

// ---- (1a) rune and byte edges -------------------------------------------------------------

var edgeSetups = [][]Op{
	nil,
	{{M: "SafeString", S: "a", V: true}},
	{{M: "UnsafeString", S: "b", V: true}},
	{{M: "SafeString", S: "a", V: true}, {M: "UnsafeString", S: "b\n", V: true}},
	{{M: "UnsafeString", S: "b", V: true}, {M: "Printf", A: "rs", S: "c", V: true}},
}

func edgeRunes() []int32 {
	var out []int32
	for r := int32(0xd800); r <= 0xdfff; r++ {
		out = append(out, r)
	}
	out = append(out, -1, -2, -2147483648, 2147483647, 0x110000, 0x10ffff, 0x110001, 0xfffd, 0xfffe, 0xffff, 0, '\n', 0x2039, 0x203a, 0x7f, 0x80, 0x7ff, 0x800)
	return out
}

func c11edges(c *Ctx) {
	runes := edgeRunes()
	type job struct {
		setup int
		op    Op
	}
	var jobs []job
	for s := range edgeSetups {
		for _, m := range []string{"SafeRune", "UnsafeRune", "WriteRune"} {
			for _, r := range runes {
				jobs = append(jobs, job{s, Op{M: m, R: r}})
			}
		}
		for _, m := range []string{"SafeByte", "UnsafeByte", "WriteByte"} {
			for b := 0; b < 256; b++ {
				jobs = append(jobs, job{s, Op{M: m, B: byte(b)}})
			}
		}
	}
	// the same with the buffer filled to within a few bytes of its first allocation (64 bytes) and of the next ones:
	// a rune-taking method that reserves space by the rune's own length meets a negative length for invalid runes
	boundary := []int32{0xd800, 0xdbff, 0xdfff, -1, -2147483648, 2147483647, 0x110000, 0x10ffff, 0xfffd, 0, '\n', 0x2039, 0x203a, 0x7f, 0x80, 0x7ff, 0x800, 0x1f600}
	for _, fill := range []int{55, 56, 57, 58, 59, 60, 61, 62, 63, 64, 65, 125, 126, 127, 128} {
		for _, sm := range []string{"SafeString", "UnsafeString", "Write"} {
			edgeSetups = append(edgeSetups, []Op{{M: sm, S: strings.Repeat("f", fill), V: true}})
			for _, m := range []string{"SafeRune", "UnsafeRune", "WriteRune"} {
				for _, r := range boundary {
					jobs = append(jobs, job{len(edgeSetups) - 1, Op{M: m, R: r}})
				}
			}
			for _, m := range []string{"SafeByte", "UnsafeByte", "WriteByte"} {
				for _, b := range []byte{'a', '\n', 0xe2, 0x80, 0xb9, 0xff} {
					jobs = append(jobs, job{len(edgeSetups) - 1, Op{M: m, B: b}})
				}
			}
		}
	}
	c.AddCount("edge_jobs", int64(len(jobs)))
	c.ParallelFor(int64(len(jobs)), func(w *Worker, i int64) {
		j := jobs[i]
		setup := edgeSetups[j.setup]
		h := append(append([]Op{}, setup...), j.op)
		h = append(h, Op{M: "SafeString", S: "Z", V: true}) // written after the edge value: must still arrive
		cs := func() interface{} { return map[string]interface{}{"history": historyString(h)} }
		for _, im := range c09impls {
			base, _ := im.run(setup)
			out, pan := im.run(h)
			w.Eval(1)
			if pan != nil {
				w.Violate("C11 edge-panic "+im.name, im.name+" panicked on "+opString(j.op)+" after "+historyString(setup)+": "+sprint(pan), cs())
				continue
			}
			if !checkOut(w, out, im.name+" "+historyString(h), cs) {
				continue
			}
			st := stripTokens(out)
			if !strings.HasPrefix(st, stripTokens(base)) {
				w.Violate("C11 output-lost "+im.name, im.name+": text written before "+opString(j.op)+" is altered: before "+q(base)+", after "+q(out), cs())
			}
			if !strings.HasSuffix(st, "Z") {
				w.Violate("C11 output-lost "+im.name, im.name+": text written after "+opString(j.op)+" is missing in "+q(out), cs())
			}
		}
		w.Nontrivial(hashStr(historyString(h)))
		if i%20011 == 7 {
			out, _ := runOnBuilder(h)
			w.Sample(map[string]string{"history": historyString(h), "StringBuilder_q": q(out)})
		}
	})
}

// ---- (1b) JoinTo ---------------------------------------------------------------------------

func c11joinValues() []interface{} {
	x := 5
	var nilPtr *int
	var nilErr error
	var nilSlice []string
	var nilIface interface{}
	return []interface{}{nil, nilIface, nilErr, nilPtr, nilSlice, true, 1, int8(2), uint(3), uintptr(4), 1.5, float32(2.5), complex(1, 2), "str", "a" + startM + "\nb",
		[]byte("by"), [2]int{1, 2}, [0]string{}, []int{1, 2}, []string{"a", "b\n"}, []interface{}{1, "x", nil}, []redact.RedactableString{"r1", startM + "u" + endM},
		[]error{nil}, map[string]int{"k": 1}, map[int]bool(nil), map[interface{}]int{nil: 1, "a": 2, 3: 3}, []map[error]int{{nil: 0, tErr{"e"}: 1}}, struct{ A int }{1}, &struct{ A int }{1}, &x, make(chan int), (chan int)(nil), func() {}, (func())(nil),
		reflect.ValueOf(3), tStringer{"s"}, tErr{"e"}, redact.Safe("safe"), redact.Unsafe("unsafe"), redact.RedactableString("rs"), redact.RedactableBytes("rb"),
		[]tStringer{{"a"}}, [][]int{{1}, {2, 3}}, []*int{&x, nil}, tPanicStringer{panicSpec{mode: 0, msg: "boom"}}, []interface{}{tPanicStringer{panicSpec{mode: 0, msg: "boom"}}}}
}

func c11join(c *Ctx) {
	vals := c11joinValues()
	delims := []redact.RedactableString{"", ", ", redact.RedactableString(startM + "d" + endM), "\n"}
	c.ParallelFor(int64(len(vals)*len(delims)), func(w *Worker, i int64) {
		v := vals[int(i)%len(vals)]
		d := delims[int(i)/len(vals)]
		cs := func() interface{} {
			return map[string]interface{}{"values_type": reflect.TypeOf(v) != nil && true, "type": sprintType(v), "delim_q": q(string(d))}
		}
		var sb redact.StringBuilder
		sb.SafeString("pre:")
		if !guard(w, "JoinTo-panic", "JoinTo with values of type "+sprintType(v), cs, func() { redact.JoinTo(&sb, d, v) }) {
			return
		}
		w.Eval(1)
		out := string(sb.RedactableString())
		if !checkOut(w, out, "JoinTo", cs) {
			return
		}
		if !strings.HasPrefix(out, "pre:") {
			w.Violate("C11 output-lost JoinTo", "text written before JoinTo is altered: "+q(out), cs())
		}
		if v == nil || reflect.TypeOf(v).Kind() != reflect.Slice {
			// not a slice: printed as-is, once
			var ref redact.StringBuilder
			ref.SafeString("pre:")
			ref.Print(v)
			if want := string(ref.RedactableString()); canon(out) != canon(want) {
				w.Violate("C11 JoinTo non-slice", "JoinTo with a non-slice of type "+sprintType(v)+" gives "+q(out)+", printing the value gives "+q(want), cs())
			}
		}
		w.Nontrivial(hashStrs(sprintType(v), string(d)))
		// Join of an empty and a nil slice
		guard(w, "Join-panic", "Join", cs, func() {
			_ = redact.Join(d, nil)
			_ = redact.Join(d, []redact.RedactableString{})
		})
	})
}

func sprintType(v interface{}) string {
	if v == nil {
		return "<nil>"
	}
	return reflect.TypeOf(v).String()
}

// ---- (1c) hostile format prefixes ----------------------------------------------------------

var hostileFormats = []string{
	"%[1]*[2]d", "%-+# 0123.456[3]!v", "%!(", "%[", "%[]", "%[1", "%.[", "%*", "%.*", "%[2]*.[1]*[3]f", "%[1]", "%[0]d", "%[-1]d", "%[x]d", "%[99999999999]d",
	"%.[1]*d", "%[1].2d", "%[1]2d", "%12345678901234567890d", "%.12345678901234567890d", "%%%", "%", "%\xff", "%\xe2\x80", "%\xe2\x80\xb9", "% ‹", "%+‹d",
	"%v%", "%v%[", "%d %d %d", "%!v(PANIC=", "%!(EXTRA ", "%w%w%w", "%T%p%w", "%c%U%q%x", "%#+- 0v", "%*.*v", "%[3]*.[2]*[1]v", "%.0s%.0d", "%1000001d",
	// widths and precisions beyond the formatter's fixed scratch buffers
	"%#.62U|%#.100U|%#.60U", "%0100d|%+080d|%#067x", "%#0130.100b", "%.80q|%-100.90s|%100c", "%#70.66x|% 090.80X", "%0300.200f|%+0100e|%#0100g",
}

func c11formats(c *Ctx) {
	x := 7
	argLists := [][]interface{}{nil, {nil}, {1}, {1, 2, 3}, {"s", []byte(nil), (*int)(nil)}, {-3, 1000001, &x, tErr{"e"}},
		// wrapped nils and wrappers as surplus, star and indexed operands
		{redact.Safe(nil), redact.Unsafe(nil), redact.Safe(redact.Unsafe(nil))}, {1, redact.Safe(nil), 2, redact.Unsafe(nil), nil}, {redact.Safe(3), redact.Unsafe(4), redact.Safe("w")},
		{0x2039, 0x1f600, 0xe9}, {-42, uint64(1) << 63, 2.5}}
	type job struct {
		f    string
		args int
	}
	var jobs []job
	for _, hf := range hostileFormats {
		for n := 0; n <= len(hf); n++ {
			for a := range argLists {
				jobs = append(jobs, job{hf[:n], a})
			}
		}
	}
	c.AddCount("format_prefix_jobs", int64(len(jobs)))
	c.ParallelFor(int64(len(jobs)), func(w *Worker, i int64) {
		j := jobs[i]
		args := argLists[j.args]
		cs := func() interface{} { return map[string]interface{}{"format_q": q(j.f), "arg_list": j.args} }
		for route := routeS; route <= routeErrorf; route++ {
			o := runRedact(route, false, j.f, args)
			w.Eval(1)
			if o.panicked {
				w.Violate("C11 format-panic", routeNames[route]+" panicked on format "+q(j.f)+": "+pvalString(o.pval), cs())
				continue
			}
			checkOut(w, o.out, routeNames[route]+" format "+q(j.f), cs)
		}
		w.Nontrivial(hashStrs(j.f, itoa(j.args)))
	})
}

// ---- (2) contained panics ---------------------------------------------------------------------

// panicText is what the payload of mode m prints as.
func panicText(mode int, msg string) string {
	switch mode {
	case 3:
		return "assignment to entry in nil map"
	case 6:
		return "<nil>"
	case 7:
		return "[<nil>]"
	case 9:
		idx := 1
		if len(msg) > 0 {
			idx += int(msg[0])
		}
		return "runtime error: index out of range [" + itoa(idx) + "] with length 1"
	}
	return msg
}

type c11panicCase struct {
	Steps  []*D   `json:"steps"`
	At     int    `json:"panic_at"`
	Mode   int    `json:"mode"`
	Msg    string `json:"msg"`
	Shape  string `json:"shape"`
	Method string `json:"method"`
}

func c11panics(c *Ctx) {
	o := genOpts{invalidUTF8: false, redactKinds: true, panics: false, safeKinds: true, maxDepth: 1}
	n := c.pick(600000, 10000000)
	shapes := []string{"top", "literals", "slice", "nested-print", "nested-printf", "field"}
	methods := []string{"SafeFormat", "SafeFormat", "SafeFormat", "SafeMessager", "String", "Error", "Format", "GoString"}
	msgs := []string{"boom", "b" + startM + "m", "line\nfeed", "", "é日", "%v%!", endM}
	c.ParallelFor(n, func(w *Worker, i int64) {
		r := newRng(c.Seed, 0xc11, uint64(i))
		pc := c11panicCase{Mode: []int{0, 1, 2, 3, 6, 7, 8, 9}[r.Intn(8)], Msg: msgs[r.Intn(len(msgs))], Shape: shapes[r.Intn(len(shapes))], Method: methods[r.Intn(len(methods))]}
		nsteps := r.Intn(5)
		for k := 0; k < nsteps; k++ {
			st := randStep(r, 1, o)
			if st.K == "sVerb" {
				st = dS("sSafeString", "v")
			}
			pc.Steps = append(pc.Steps, st)
		}
		pc.At = r.Intn(nsteps + 1)
		if r.Chance(1, 3) {
			// History: an earlier call in which a panic propagated through nested
			// printers (the payload's own printing panics, as fmt lets it). The
			// printers it used go back to the pool; the case below must not care.
			func() {
				defer func() { recover() }()
				bad := tPanicStringer{panicSpec{mode: 4 + r.Intn(2), msg: "unprintable", k: new(int)}}
				_ = redact.Sprint(c11outer{"h1", "h2", bad, r.Bool(), ""})
			}()
			w.Count("histories_with_propagated_panic", 1)
		}
		if pc.Method == "GoString" && pc.Shape == "nested-print" {
			pc.Shape = "nested-printf" // Print has no %#v form
		}
		c11panicCheck(w, pc, i)
	})
}

// element builds the panicking element and its "cut" twin (the same element
// ending normally right where the panic would be raised).
func (pc c11panicCase) element(bc *buildCtx, cut bool) (elem interface{}, report string, verbFlag string) {
	ps := panicSpec{mode: pc.Mode, msg: pc.Msg}
	switch pc.Method {
	case "SafeFormat":
		steps := append([]*D{}, pc.Steps[:pc.At]...)
		if !cut {
			steps = append(steps, &D{K: "sPanic", S: QS(pc.Msg), N: int64(pc.Mode)})
			steps = append(steps, pc.Steps[pc.At:]...)
		}
		return tSafeFmt{steps, func() *buildCtx { return bc }}, "SafeFormat", ""
	case "SafeMessager":
		if cut {
			return interfaces.SafeString(""), "SafeMessager", ""
		}
		return tSafeMsgPanic{ps}, "SafeMessager", ""
	case "String":
		if cut {
			return interfaces.SafeString(""), "String", ""
		}
		return tPanicStringer{ps}, "String", ""
	case "Error":
		if cut {
			return interfaces.SafeString(""), "Error", ""
		}
		return tPanicErr{ps}, "Error", ""
	case "Format":
		if cut {
			return tFmter{"part:"}, "Format", ""
		}
		return tPanicFmter{"part:", ps}, "Format", ""
	default:
		if cut {
			return tGoStringer{""}, "GoString", "#"
		}
		return tPanicGoStr{ps}, "GoString", "#"
	}
}

type c11outer struct {
	pre, post string
	elem      interface{}
	printf    bool
	flag      string
}

func (o c11outer) SafeFormat(p redact.SafePrinter, _ rune) {
	p.SafeString(interfaces.SafeString(o.pre))
	if o.printf {
		p.Printf("n=%"+o.flag+"v;", o.elem)
	} else {
		p.Print(o.elem)
	}
	p.UnsafeString(o.post)
}

var panicFrameRe = regexp.MustCompile(`%!.\(PANIC=[A-Za-z]+ method: `)

func c11panicCheck(w *Worker, pc c11panicCase, idx int64) {
	cs := func() interface{} { return pc }
	bc := newBuildCtx()
	bc.memo = map[*D]interface{}{} // the steps before the panic build to the same values in both runs (addresses are printed)
	run := func(cut bool) (out string, ok bool) {
		elem, _, flag := pc.element(bc, cut)
		ok = guard(w, "contained-panic-escaped", "a call whose operand's "+pc.Method+" method panics (mode "+itoa(pc.Mode)+", shape "+pc.Shape+")", cs, func() {
			switch pc.Shape {
			case "top":
				out = string(redact.Sprintf("%"+flag+"v", elem))
			case "literals":
				out = string(redact.Sprintf("pre "+startM+" %"+flag+"v post\n%d", elem, 7))
			case "slice":
				out = string(redact.Sprintf("%"+flag+"v", []interface{}{redact.Safe("first"), elem, "last"}))
			case "field":
				out = string(redact.Sprintf("%+"+flag+"v", tS2{elem, "last"}))
			case "nested-print":
				out = string(redact.Sprint(c11outer{"o1 ", " o2", elem, false, flag}))
			default:
				out = string(redact.Sprint(c11outer{"o1 ", " o2", elem, true, flag}))
			}
		})
		return out, ok
	}
	full, ok1 := run(false)
	cut, ok2 := run(true)
	w.Eval(2)
	if !ok1 || !ok2 {
		return
	}
	if !checkOut(w, full, "output with a contained panic", cs) {
		return
	}
	// The report is %!verb(PANIC=<label> method: <payload>). For String/Error/Format/GoString
	// the label is fmt's (C04 compares it with fmt); for the redact-specific methods only the shape is required.
	sf, sc := stripTokens(full), stripTokens(cut)
	loc := panicReportRe.FindStringIndex(sf)
	if loc == nil {
		w.Violate("C11 no-report", "no %!v(PANIC=... method: ...) report in "+q(full)+" (without the panic: "+q(cut)+")", cs())
		return
	}
	report := sf[loc[0]+3 : loc[1]]
	at := loc[0] + 3
	// "%!v" precedes the report
	head := sf[:at]
	if !strings.HasSuffix(head, "%!v") {
		w.Violate("C11 report-shape", "report not introduced by %!v in "+q(full), cs())
		return
	}
	head = strings.TrimSuffix(head, "%!v")
	payload := esc(panicText(pc.Mode, pc.Msg))
	tail := sf[at+len(report):]
	if !strings.HasPrefix(tail, payload+")") {
		w.Violate("C11 report-shape", "report payload: got "+q(tail)+", want it to start with "+q(payload+")")+" in "+q(full), cs())
		return
	}
	tail = tail[len(payload)+1:]
	// The text before and after the failing element is that of the same call cut at that point.
	if !strings.HasPrefix(sc, head) || !strings.HasSuffix(sc, tail) || len(head)+len(tail) != len(sc) {
		// SafeFormat scripts: the steps after the panic are not executed, so "cut" has no more text than head+tail.
		w.Violate("C11 surrounding-text", "around the report: before "+q(head)+" after "+q(tail)+"; the same call without the panic prints "+q(sc)+" (full output "+q(full)+")", cs())
		return
	}
	// The payload is unsafe: with envelopes deleted it must be gone.
	if (pc.Msg != "" && (pc.Mode < 3 || pc.Mode == 8)) || pc.Mode == 9 {
		p := parse(full)
		so := safeOnly(p)
		if i := strings.Index(so, report); i >= 0 {
			rest := so[i+len(report):]
			if !strings.HasPrefix(rest, lfOnly(payload)+")") {
				w.Violate("C11 payload-safe", "panic payload outside envelopes: "+q(full), cs())
				return
			}
		}
	}
	// What is outside envelopes is what the same call cut at that point leaves outside, plus the report's frame: a
	// contained panic must not leave the printer on the unsafe side (or the safe one) for the text that follows.
	if pc.Method != "SafeFormat" && (pc.Mode <= 2 || pc.Mode == 8) && !strings.Contains(pc.Msg, "\n") {
		sof, soc := safeOnly(parse(full)), safeOnly(parse(cut))
		loc := panicFrameRe.FindStringIndex(sof)
		if loc == nil {
			w.Violate("C11 classification-after-panic", "the frame of the panic report (%!v(PANIC=... method: ) is not outside envelopes in "+q(full), cs())
			return
		}
		{
			rest := sof[loc[1]:]
			if strings.HasPrefix(rest, ")") {
				if got := sof[:loc[0]] + rest[1:]; got != soc {
					w.Violate("C11 classification-after-panic", "outside envelopes, apart from the report's frame, "+q(got)+"; the same call without the panic leaves "+q(soc)+" outside (full output "+q(full)+")", cs())
					return
				}
			}
		}
	}
	w.Count("contained_panics_observed", 1)
	w.Nontrivial(hashStrs(sprint(pc.Mode), pc.Msg, pc.Shape, pc.Method, itoa(pc.At), itoa(len(pc.Steps))))
	if idx%30011 == 5 {
		w.Sample(map[string]interface{}{"case": pc, "output_q": q(full), "same_call_cut_q": q(cut)})
	}
}

// ---- a panic that propagates through a nested printer and is contained further up ---------------

// tPanicNamedStr: a value of string kind with a String method that panics with an unprintable payload (once: the counter
// of the payload is looked up by the string's own value, a string cannot carry a pointer)
type tPanicNamedStr string

var namedStrCounters sync.Map

func (s tPanicNamedStr) String() string {
	k, _ := namedStrCounters.Load(string(s))
	kp, _ := k.(*int)
	panic(tBadPayload{msg: "boom", k: kp})
}

type c11double struct {
	head  string
	first interface{}
	bad   interface{}
	form  int
}

func (d c11double) SafeFormat(p redact.SafePrinter, _ rune) {
	p.SafeString("before ")
	p.UnsafeString(d.head)
	switch d.form {
	case 0:
		p.Print(d.first, d.bad)
	case 1:
		p.Printf("%v|%v", d.first, d.bad)
	default:
		p.Printf("%s", d.first)
		p.Print(d.bad)
	}
	p.SafeString(" unreachable")
}

// c11doublePanics: the payload of the inner panic panics the first time it is
// printed, so the nested printer lets the panic through (as fmt does) and the
// enclosing printer contains it. Everything written before the failing
// element, by either printer, must still be there.
func c11doublePanics(c *Ctx) {
	heads := []string{"", "head", "h" + endM, "line\n", "x" + startM}
	firsts := []interface{}{"abc", 42, redact.Safe("s"), "", tStringer{"st"}, []interface{}{1, "z"}}
	var jobs [][3]int
	for h := range heads {
		for f := range firsts {
			for form := 0; form < 3; form++ {
				jobs = append(jobs, [3]int{h, f, form})
			}
		}
	}
	c.ParallelFor(int64(len(jobs)), func(w *Worker, i int64) {
		j := jobs[i]
		cs := func() interface{} {
			return map[string]interface{}{"head_q": q(heads[j[0]]), "first": sprintType(firsts[j[1]]), "form": j[2]}
		}
		run := func(withBad bool) (out string, ok bool) {
			k := 1
			var bad interface{} = tStringer{""}
			_, firstIsString := firsts[j[1]].(string)
			named := firstIsString && j[0]%2 == 0
			if withBad {
				bad = tPanicStringer{panicSpec{mode: 5, msg: "boom", k: &k}}
				if named {
					// the same through a type of string kind (all operands of the nested call may then be of string kind)
					key := "named-" + itoa(int(i))
					namedStrCounters.Store(key, &k)
					bad = tPanicNamedStr(key)
				}
			} else if named {
				bad = "" // the twin without the panic: a plain empty string
			}
			ok = guard(w, "double-panic-escaped", "a call in which a panic passes through a nested printer and is contained by the enclosing one", cs, func() {
				out = string(redact.Sprint(c11double{heads[j[0]], firsts[j[1]], bad, j[2]}))
			})
			return
		}
		full, ok1 := run(true)
		ref, ok2 := run(false)
		w.Eval(2)
		if !ok1 || !ok2 || !checkOut(w, full, "output after a propagated and then contained panic", cs) {
			return
		}
		sf, sr := stripTokens(full), stripTokens(ref)
		// ref = "before <head><first>[sep] unreachable"; everything up to the failing element must be kept
		keep := strings.TrimSuffix(sr, " unreachable")
		if j[2] == 0 {
			keep = strings.TrimSuffix(keep, " ") // Print puts a space before a non-string operand that follows a non-string one
		}
		at := strings.Index(sf, "%!v(PANIC=")
		if at < 0 || !strings.HasPrefix(sf, keep) && !strings.HasPrefix(keep, sf[:at]) || len(sf[:at]) < len(strings.TrimRight(keep, " ")) {
			w.Violate("C11 output-lost-nested", "text written before the failing element is lost: got "+q(full)+", the same call without the panic prints "+q(ref), cs())
			return
		}
		w.Count("propagated_then_contained", 1)
		w.Nontrivial(hashStrs("double", itoa(j[0]), itoa(j[1]), itoa(j[2])))
	})
}

// ---- nil operands everywhere ------------------------------------------------------------------

func c11nils(c *Ctx) {
	var np *int
	var ne error
	var ns fmtStringerNil
	ops := []interface{}{nil, np, ne, ns, (*tPStringer)(nil), (*tPErr)(nil), []interface{}(nil), map[string]int(nil), (func())(nil), (chan int)(nil), redact.Safe(nil), redact.Unsafe(nil),
		[]interface{}{nil}, map[string]interface{}{"k": nil}, map[interface{}]int{nil: 1, "a": 2, 3: 3}, map[error]string{nil: "n", tErr{"e"}: "e"}, tS2{nil, nil}, &tS2{}, reflect.Value{}, reflect.ValueOf((*int)(nil)), redact.RedactableString(""), redact.RedactableBytes(nil), (*redact.StringBuilder)(nil),
		// shapes on which reflection-based shortcuts fail: byte arrays that are not addressable, of a named element type, in
		// unexported fields, behind interfaces; maps whose keys are compared by address
		struct{ sum [4]byte }{[4]byte{1, 2, 0xe2, 4}}, struct{ Sum [4]tNUint8 }{}, tSNArr{[4]tNUint8{1, 2}, [4]tNUint8{3}}, map[string][2]byte{"k": {7, 8}}, []interface{}{[3]byte{1, 2, 3}, struct{ b [2]byte }{}},
		map[unsafe.Pointer]int{unsafe.Pointer(&keyInts[0]): 1, unsafe.Pointer(&keyInts[1]): 2}, map[*int]string{&keyInts[0]: "a", &keyInts[2]: "b", nil: "n"},
		map[chan int]int{keyChans[1]: 1, keyChans[2]: 2, nil: 0}, map[interface{}]int{unsafe.Pointer(&keyInts[0]): 1, unsafe.Pointer(&keyInts[1]): 2, keyChans[1]: 3, &keyInts[2]: 4},
		map[[2]unsafe.Pointer]bool{{nil, unsafe.Pointer(&keyInts[0])}: true, {nil, unsafe.Pointer(&keyInts[1])}: false},
		// read-only reflect.Values (taken from unexported fields) holding wrappers, redactables and nil
		reflect.ValueOf(tSUnexp{1, "s", redact.Safe("w")}).Field(2), reflect.ValueOf(tSUnexp{1, "s", redact.Unsafe(3)}).Field(2).Elem(), reflect.ValueOf(tSUnexp{1, "s", redact.Safe(nil)}).Field(2).Elem(),
		reflect.ValueOf(tSUnexp{1, "s", redact.RedactableString("r")}).Field(2).Elem(), reflect.ValueOf(tSUnexp{1, "s", nil}).Field(2), reflect.ValueOf(tSUnexp{1, "s", tErr{"e"}}).Field(2),
		// nil values of non-pointer types whose methods panic on them: reported as PANIC, not as <nil>
		tPathStringer(nil), tPathStringer{}, tMapErr(nil), tFuncStringer(nil), []interface{}{tPathStringer(nil), tMapErr(nil)}}
	var jobs [][2]int
	for i := range ops {
		for v := range allVerbs {
			jobs = append(jobs, [2]int{i, v})
		}
	}
	c.ParallelFor(int64(len(jobs)), func(w *Worker, i int64) {
		op, verb := ops[jobs[i][0]], allVerbs[jobs[i][1]]
		cs := func() interface{} { return map[string]interface{}{"operand_type": sprintType(op), "verb": verb} }
		for route := routeS; route <= routeErrorf; route++ {
			for _, f := range []string{"%" + verb, "%+" + verb, "%#" + verb, "%8.3" + verb} {
				fo := runFmt(false, false, f, []interface{}{op})
				o := runRedact(route, false, f, []interface{}{op})
				w.Eval(1)
				if o.panicked && !fo.panicked {
					w.Violate("C11 nil-panic", routeNames[route]+" panicked on "+q(f)+" with "+sprintType(op)+": "+pvalString(o.pval), cs())
					continue
				}
				if !o.panicked {
					checkOut(w, o.out, routeNames[route]+" "+f, cs)
					// a method panic that fmt reports in place is reported in place here too (and vice versa)
					if !fo.panicked && route != routeErrorf && strings.Contains(fo.out, "(PANIC=") != strings.Contains(o.out, "(PANIC=") {
						w.Violate("C11 panic-report", routeNames[route]+"("+q(f)+", "+sprintType(op)+") = "+q(o.out)+" but fmt prints "+q(fo.out)+": a method panic is reported in place exactly where fmt reports one", cs())
					}
				}
			}
		}
		w.Nontrivial(hashStrs(sprintType(op), verb))
	})
}

type fmtStringerNil interface{ String() string }

// ---- StringWithoutMarkers: the remaining entry point that runs a user method ---------------------

type tValSF struct{ s string }

func (v tValSF) SafeFormat(p redact.SafePrinter, _ rune) { p.SafeString(interfaces.SafeString(v.s)) }

type tPtrSF struct{ s string }

func (v *tPtrSF) SafeFormat(p redact.SafePrinter, _ rune) { p.UnsafeString(v.s) } // dereferences its receiver

// c11withoutMarkers: StringWithoutMarkers(f) never panics where Sprint(f) does not, and is Sprint(f) without markers:
// SafeFormat methods that panic at every position of a script (the text written before stays), nil receivers, the nil interface.
func c11withoutMarkers(c *Ctx) {
	o := genOpts{invalidUTF8: false, redactKinds: true, panics: false, safeKinds: true, maxDepth: 1}
	n := c.pick(60000, 600000)
	c.ParallelFor(n, func(w *Worker, i int64) {
		r := newRng(c.Seed, 0xc11f, uint64(i))
		bc := newBuildCtx()
		bc.memo = map[*D]interface{}{}
		var f redact.SafeFormatter
		var desc string
		noPanic := false
		switch k := r.Intn(10); {
		case k == 0:
			f, desc = nil, "nil interface"
		case k == 1:
			f, desc = (*tValSF)(nil), "nil pointer, value-receiver SafeFormat"
		case k == 2:
			f, desc = (*tPtrSF)(nil), "nil pointer, dereferencing SafeFormat"
		case k == 3:
			f, desc = (*redact.StringBuilder)(nil), "nil *StringBuilder"
		default:
			var steps []*D
			for j, m := 0, r.Intn(5); j < m; j++ {
				st := randStep(r, 1, o)
				if st.K == "sVerb" {
					st = dS("sSafeString", "v")
				}
				steps = append(steps, st)
			}
			at := r.Intn(len(steps) + 1)
			if k < 9 {
				mode := []int{0, 1, 2, 3, 6, 7, 8, 9}[r.Intn(8)]
				steps = append(steps[:at:at], append([]*D{{K: "sPanic", S: "boom" + startM, N: int64(mode)}}, steps[at:]...)...)
				desc = "SafeFormat script panicking at step " + itoa(at) + " (mode " + itoa(mode) + ")"
			} else {
				// no step panics: a nested script of the same (uncomparable) type is printed by one of the steps
				var innerSteps []*D
				for j, m := 0, 1+r.Intn(3); j < m; j++ {
					innerSteps = append(innerSteps, randStep(r, 1, o))
				}
				steps = append(steps, dSub("sPrint", &D{K: "SafeFmt", Sub: innerSteps}), &D{K: "sPrintf", S: "<%v|%d>", Sub: []*D{{K: "SafeFmt", Sub: innerSteps}, dN("int", 3)}})
				desc = "SafeFormat script printing scripts of its own type"
				noPanic = true
			}
			f = tSafeFmt{steps, func() *buildCtx { return bc }}
			desc += ": " + sprint(len(steps)) + " steps"
		}
		cs := func() interface{} { return map[string]interface{}{"formatter": desc} }
		var ref, got string
		refPan := func() (p interface{}) {
			defer func() { p = recover() }()
			ref = redact.Sprint(f).StripMarkers()
			return nil
		}()
		bc.resetCounters()
		gotPan := func() (p interface{}) {
			defer func() { p = recover() }()
			got = redact.StringWithoutMarkers(f)
			return nil
		}()
		w.Eval(2)
		if refPan != nil {
			w.Count("sprint_panicked_too", 1)
			return
		}
		if gotPan != nil {
			w.Violate("C11 StringWithoutMarkers-panic", "StringWithoutMarkers panicked ("+pvalString(gotPan)+") where Sprint prints "+q(ref)+": "+desc, cs())
			return
		}
		if got != ref {
			w.Violate("C11 StringWithoutMarkers-text", "StringWithoutMarkers gives "+q(got)+", Sprint(f).StripMarkers() gives "+q(ref)+": "+desc, cs())
			return
		}
		if noPanic && strings.Contains(got, "(PANIC=") {
			w.Violate("C11 spurious-panic-report", "no user method panics, yet the output reports one: "+q(got)+": "+desc, cs())
			return
		}
		w.Nontrivial(hashStrs("swm", desc, got))
	})
}

func runC11(c *Ctx) {
	registerStdTypes()
	c11edges(c)
	c11join(c)
	c11formats(c)
	c11nils(c)
	c11panics(c)
	c11doublePanics(c)
	c11withoutMarkers(c)
	c11withHook(c)
	c.res.Bound = "rune edges: all 2048 surrogates + 18 boundary values; all 256 bytes; 5 buffer states x 4 implementations; 44 JoinTo operand types x 4 delimiters; every prefix of 46 hostile formats x 11 operand lists x 6 routes; 44 nil-ish and reflection-hostile operands x 58 verbs x 4 flag forms x 6 routes"
	c.res.Assumptions = []string{"outside the claim, per the statement: Grow with a negative count, memory exhaustion; nil destinations/callbacks are programmer errors, not values to print", "a panic raised while printing a panic payload propagates, as in fmt (checked against fmt in C04)"}
}

// c11withHook: the containment of user-method panics does not depend on whether an error hook is registered. With a
// hook that renders an error through its Error method (as cockroachdb/errors does), an Error method that panics — on its
// own or because the receiver is a nil pointer — must be reported in place like any other method panic.
func c11withHook(c *Ctx) {
	c.Serial(func(w *Worker) {
		hooks := []func(err error, p redact.SafePrinter, verb rune){
			func(err error, p redact.SafePrinter, _ rune) { p.Printf("H[%s]", err.Error()) },
			func(err error, p redact.SafePrinter, _ rune) { p.SafeString("H:"); p.Print(err.Error()) },
			func(err error, p redact.SafePrinter, _ rune) { p.UnsafeString(err.Error()) },
			func(err error, p redact.SafePrinter, _ rune) { panic("hook itself: boom") },
		}
		type ecase struct {
			name   string
			e      error
			nilish bool
		}
		cases := []ecase{{"Error panics with a string", tPanicErr{panicSpec{mode: 0, msg: "boom"}}, false}, {"Error panics with an error", tPanicErr{panicSpec{mode: 1, msg: "boom"}}, false},
			{"Error panics with a runtime error", tPanicErr{panicSpec{mode: 3, msg: "boom"}}, false}, {"nil *T whose Error dereferences", (*tPErr)(nil), true}, {"well-behaved", tErr{"fine"}, false}}
		shapes := []func(e error) interface{}{
			func(e error) interface{} { return e },
			func(e error) interface{} { return []interface{}{1, e, "z"} },
			func(e error) interface{} { return []error{e} },
			func(e error) interface{} { return struct{ E error }{e} },
			func(e error) interface{} { return map[string]error{"k": e} },
			func(e error) interface{} { return redact.Safe(e) },
		}
		defer redact.RegisterRedactErrorFn(nil)
		for hi, h := range hooks {
			redact.RegisterRedactErrorFn(h)
			for _, ec := range cases {
				for si, sh := range shapes {
					for _, f := range []string{"pre %v post", "pre %+v post", "pre %s post", "pre %d|%v post", "pre %q post", "pre %#v post"} {
						args := []interface{}{sh(ec.e)}
						if strings.Count(f, "%") == 2 {
							args = []interface{}{7, sh(ec.e)}
						}
						cs := func() interface{} {
							return map[string]interface{}{"hook": hi, "error": ec.name, "shape": si, "format": f}
						}
						var out, sbOut string
						ok := guard(w, "hook-panic-escaped", "Sprintf("+q(f)+") with hook "+itoa(hi)+", operand "+ec.name+" (shape "+itoa(si)+")", cs, func() { out = string(redact.Sprintf(f, args...)) })
						ok = guard(w, "hook-panic-escaped", "StringBuilder.Printf("+q(f)+") with hook "+itoa(hi)+", operand "+ec.name+" (shape "+itoa(si)+")", cs, func() {
							var sb redact.StringBuilder
							sb.Printf(f, args...)
							sbOut = string(sb.RedactableString())
						}) && ok
						w.Eval(2)
						w.Nontrivial(hashStrs("c11hook", itoa(hi), ec.name, itoa(si), f))
						if !ok {
							continue
						}
						if !checkOut(w, out, "Sprintf with a hook", cs) {
							continue
						}
						if out != sbOut {
							w.Violate("C11 hook-routes", "with hook "+itoa(hi)+", operand "+ec.name+": Sprintf="+q(out)+" StringBuilder.Printf="+q(sbOut), cs())
						}
						if !strings.HasPrefix(out, "pre ") || !strings.HasSuffix(out, " post") {
							w.Violate("C11 hook-text-lost", "with hook "+itoa(hi)+", operand "+ec.name+": the literal text around the operand is not intact: "+q(out), cs())
						}
						// a nil pointer receiver turns any panic under it into <nil>, as in fmt
						panics := !ec.nilish && (ec.name != "well-behaved" || hi == 3)
						if panics && si == 0 && !strings.Contains(out, "PANIC=") {
							w.Violate("C11 hook-report", "with hook "+itoa(hi)+", operand "+ec.name+": no PANIC report in "+q(out), cs())
						}
						// (under Safe(e) everything the operand prints is declared safe, the payload included: C06)
						if panics && si != 5 && strings.Contains(redact.RedactableString(out).Redact().StripMarkers(), "boom") {
							w.Violate("C11 hook-payload", "with hook "+itoa(hi)+", operand "+ec.name+": the panic payload is visible after Redact(): "+q(out), cs())
						}
					}
				}
			}
		}
	})
}
