package main

// C08 — redactables compose: re-printing is identity, joining is concatenation.

import (
	"errors"
	"reflect"
	"strings"

	"github.com/cockroachdb/redact"
	"github.com/cockroachdb/redact/interfaces"
)

func init() {
	register("C08", &monitor{
		run: runC08,
		rule: "histories of print-then-reprint: a pool of redactable strings obtained from the library (random calls over the full universe, builder/printer histories) is fed back, to depth 6 (quick) / 40 (thorough), through Sprintf with every directive other than %T/%p (as string, as bytes, as reflect.Value), " +
			"inside containers (interface-typed and typed slices, arrays, maps as key and value, exported, embedded and unexported struct fields, pointers, SafeValue and registered containers) checked against fmt's punctuation with a placeholder substituted back, Sprint(Sprint(a...)), Sprintf of several redactables with literals, Join and JoinTo; " +
			"oracle: identity, plain concatenation, Redact/StripMarkers distribute; non-trivial = the redactable has at least one envelope and one escaped marker or line feed; distinct = distinct (redactable, operation)",
	})
}

type c08pool struct {
	items []string
}

func (p *c08pool) pick(r *Rng) string { return p.items[r.Intn(len(p.items))] }

func interesting(s string) bool {
	return strings.Contains(s, startM) && (strings.Contains(s, "?") || strings.Contains(s, "\n"))
}

// c08seed produces the first generation of the pool.
func c08seed(r *Rng, n int) []string {
	o := fullOpts()
	o.panics = false
	var out []string
	out = append(out, "", "plain", startM+"x"+endM, "a "+startM+"b"+endM+"\n"+startM+"c"+endM+" d", startM+"?"+endM+"?")
	for len(out) < n {
		var s string
		if r.Chance(1, 2) {
			s = genLibraryOutput(r)
		} else {
			o2, built := runCall(routeS, randCall(r, o))
			if !built || o2.panicked {
				continue
			}
			s = o2.out
		}
		if len(s) > 300 {
			continue
		}
		if p := parse(s); !p.WellFormed {
			continue // C01's business; C08 only quantifies over well-formed redactables
		}
		out = append(out, s)
	}
	return out
}

// c08unexp: redactables in unexported fields, typed and behind interfaces.
type c08unexp struct {
	rs redact.RedactableString
	rb redact.RedactableBytes
	i  interface{}
	j  interface{}
	E  interface{}
}

func c08dir(r *Rng) Dir {
	d := randDir(r, genOpts{}, r.Chance(1, 3))
	d.Lit = ""
	for d.Verb == "T" || d.Verb == "p" {
		d.Verb = allVerbs[r.Intn(len(allVerbs))]
	}
	return d
}

func c08args(d Dir, v interface{}) []interface{} {
	var args []interface{}
	if d.Width == "*" {
		args = append(args, d.WArg)
	}
	if d.Prec == ".*" {
		if d.PArg < 0 {
			d.PArg = 1
		}
		args = append(args, d.PArg)
	}
	return append(args, v)
}

func c08check(w *Worker, pool *c08pool, r *Rng, idx int64) (produced string) {
	rs := pool.pick(r)
	viol := func(sig, msg string, extra map[string]interface{}) {
		if extra == nil {
			extra = map[string]interface{}{}
		}
		extra["redactable_q"] = q(rs)
		w.Violate("C08 "+sig, msg+" redactable="+q(rs), extra)
	}
	defer func() {
		if p := recover(); p != nil {
			viol("panic", "panic: "+pvalString(p), nil)
		}
	}()
	nt := func(op string) {
		if interesting(rs) {
			w.Nontrivial(hashStrs(rs, op))
		}
	}
	switch op := r.Intn(9); op {
	case 0, 1: // identity under any directive, as string / bytes / reflect.Value
		d := c08dir(r)
		if d.PArg < 0 {
			d.PArg = 1
		}
		forms := []interface{}{redact.RedactableString(rs), redact.RedactableBytes(rs), reflect.ValueOf(redact.RedactableString(rs)), reflect.ValueOf(redact.RedactableBytes(rs))}
		if r.Chance(1, 3) {
			// reflect.Value operands of the kinds a generic struct walker produces: read-only values taken from
			// unexported fields (typed, and interface-typed), interface-kind values taken from a slice element,
			// an exported interface field and a pointer's target
			ue := reflect.ValueOf(c08unexp{redact.RedactableString(rs), redact.RedactableBytes(rs), redact.RedactableString(rs), redact.RedactableBytes(rs), redact.RedactableString(rs)})
			var iface interface{} = redact.RedactableString(rs)
			rsv := redact.RedactableString(rs)
			forms = []interface{}{ue.Field(0), ue.Field(1), ue.Field(2), ue.Field(3), ue.Field(4),
				reflect.ValueOf([]interface{}{redact.RedactableString(rs)}).Index(0), reflect.ValueOf([]interface{}{redact.RedactableBytes(rs)}).Index(0),
				reflect.ValueOf(&iface).Elem(), reflect.ValueOf(&rsv).Elem(), reflect.ValueOf([]redact.RedactableString{rsv}).Index(0)}
		}
		v := forms[r.Intn(len(forms))]
		got := string(redact.Sprintf(d.String(), c08args(d, v)...))
		w.Eval(1)
		if got != rs {
			viol("identity", "Sprintf("+q(d.String())+", r) = "+q(got)+" (operand form "+c08form(v)+")", map[string]interface{}{"dir": d})
		}
		nt("identity" + d.String())
		produced = got
	case 2: // Sprint(Sprint(a...)) == Sprint(a...); the SafeFormat methods of the redactable types called directly; StringWithoutMarkers
		direct := string(redact.Sprintfn(func(p redact.SafePrinter) { redact.RedactableString(rs).SafeFormat(p, 'v') }))
		directB := string(redact.Sprint(fnFormatter(func(p redact.SafePrinter) { redact.RedactableBytes(rs).SafeFormat(p, 'x') })))
		if direct != rs || directB != rs {
			viol("safeformat-direct", "RedactableString.SafeFormat gives "+q(direct)+", RedactableBytes.SafeFormat gives "+q(directB), nil)
		}
		if got, want := redact.StringWithoutMarkers(fnFormatter(func(p redact.SafePrinter) { p.Print(redact.RedactableString(rs)) })), redact.RedactableString(rs).StripMarkers(); got != want {
			viol("string-without-markers", "StringWithoutMarkers gives "+q(got)+" want "+q(want), nil)
		}
		once := string(redact.Sprint(redact.RedactableString(rs)))
		twice := string(redact.Sprint(redact.RedactableString(once)))
		w.Eval(2)
		if once != rs || twice != once {
			viol("sprint-idempotent", "Sprint(r)="+q(once)+" Sprint(Sprint(r))="+q(twice), nil)
		}
		nt("sprint")
		produced = twice
	case 3: // several redactables with literals: plain concatenation
		r2 := pool.pick(r)
		lits := []string{"", "x", " = ", "\n", startM, endM, "é:", "%%", "(", "?"}
		l0, l1, l2 := lits[r.Intn(len(lits))], lits[r.Intn(len(lits))], lits[r.Intn(len(lits))]
		un := func(l string) string { return strings.ReplaceAll(l, "%%", "%") }
		format := l0 + "%v" + l1 + "%s" + l2
		got := string(redact.Sprintf(format, redact.RedactableString(rs), redact.RedactableBytes(r2)))
		want := esc(un(l0)) + rs + esc(un(l1)) + r2 + esc(un(l2))
		w.Eval(1)
		if got != want {
			viol("concatenation", "Sprintf("+q(format)+", r1, r2) = "+q(got)+" want "+q(want), map[string]interface{}{"r2_q": q(r2)})
		} else {
			rg := redact.RedactableString(got)
			if string(rg.Redact()) != esc(un(l0))+string(redact.RedactableString(rs).Redact())+esc(un(l1))+string(redact.RedactableString(r2).Redact())+esc(un(l2)) {
				viol("redact-distributes", "Redact does not distribute over Sprintf("+q(format)+", r1, r2)", map[string]interface{}{"r2_q": q(r2)})
			}
			if rg.StripMarkers() != esc(un(l0))+redact.RedactableString(rs).StripMarkers()+esc(un(l1))+redact.RedactableString(r2).StripMarkers()+esc(un(l2)) {
				viol("strip-distributes", "StripMarkers does not distribute over Sprintf("+q(format)+", r1, r2)", map[string]interface{}{"r2_q": q(r2)})
			}
		}
		nt("concat")
		produced = got
	case 4: // Join / JoinTo
		n := r.Intn(4)
		if r.Chance(1, 4) {
			// long slices: an implementation that batches elements shows at its batch boundaries
			n = c08longs[r.Intn(len(c08longs))]
		}
		elems := make([]redact.RedactableString, n)
		var parts []string
		for i := range elems {
			elems[i] = redact.RedactableString(pool.pick(r))
			parts = append(parts, string(elems[i]))
		}
		delim := pool.pick(r)
		if len(delim) > 12 {
			delim = []string{", ", startM + "," + endM, "\n", ""}[r.Intn(4)]
		}
		want := strings.Join(parts, delim)
		got := string(redact.Join(redact.RedactableString(delim), elems))
		var sb redact.StringBuilder
		redact.JoinTo(&sb, redact.RedactableString(delim), elems)
		got2 := string(sb.RedactableString())
		w.Eval(2)
		if got != want || got2 != want {
			viol("join", "Join="+q(got)+" JoinTo="+q(got2)+" want plain concatenation "+q(want), map[string]interface{}{"delim_q": q(delim), "elems": parts})
		} else {
			var red, st []string
			for _, e := range elems {
				red = append(red, string(e.Redact()))
				st = append(st, e.StripMarkers())
			}
			dl := redact.RedactableString(delim)
			if string(redact.RedactableString(got).Redact()) != strings.Join(red, string(dl.Redact())) || redact.RedactableString(got).StripMarkers() != strings.Join(st, dl.StripMarkers()) {
				viol("join-distributes", "Redact/StripMarkers do not distribute over Join", map[string]interface{}{"delim_q": q(delim), "elems": parts})
			}
		}
		// JoinTo accepts any slice: each element is printed on its own (as Sprint would) and the delimiter goes in between,
		// whatever the element kinds (Sprint's own spacing rule between operands must not show)
		{
			pieces := []interface{}{redact.RedactableBytes(pool.pick(r)), 7, nil, redact.Safe("s" + startM), "u", tS2{1, "x"}, redact.RedactableString(pool.pick(r)), redact.RedactableBytes(pool.pick(r)), 2.5, tStringer{"str"},
				&tS2{redact.Safe("login"), "alice"}, &[]interface{}{"a", redact.Safe("b")}, &map[string]interface{}{"k": "secret"}, errors.New("e"), (*tPErr)(nil), []byte("raw")}
			var vals []interface{}
			m := r.Intn(5)
			if r.Chance(1, 6) {
				m = c08longs[r.Intn(len(c08longs))]
			}
			for i := 0; i < m; i++ {
				vals = append(vals, pieces[r.Intn(len(pieces))])
			}
			var operand interface{} = vals
			if r.Chance(1, 3) {
				rbs := []redact.RedactableBytes{}
				for i, m := 0, r.Intn(4); i < m; i++ {
					rbs = append(rbs, redact.RedactableBytes(pool.pick(r)))
				}
				operand = rbs
				vals = vals[:0]
				for _, e := range rbs {
					vals = append(vals, e)
				}
			}
			if r.Chance(1, 8) {
				// a redactable byte slice as the operand itself is a slice of bytes like any other: its bytes are joined
				rb := redact.RedactableBytes(pool.pick(r))
				if len(rb) > 12 {
					rb = redact.RedactableBytes(startM + "x" + endM)
				}
				operand = rb
				vals = vals[:0]
				for _, b := range []byte(rb) {
					vals = append(vals, b)
				}
			} else if r.Chance(1, 6) {
				// not a slice: printed as it is, wrapper included
				operand = []interface{}{redact.Unsafe(interfaces.SafeString("tok")), redact.Safe("plain" + startM), redact.Unsafe(redact.RedactableString(pool.pick(r))), 42, nil, redact.Unsafe(tStringer{"s"}), tS2{redact.Safe(1), 2}}[r.Intn(7)]
				vals = []interface{}{operand}
			}
			d2 := []string{"", "", ", ", delim}[r.Intn(4)]
			var each []string
			for _, e := range vals {
				each = append(each, string(redact.Sprint(e)))
			}
			wantAny := strings.Join(each, d2)
			var sb2 redact.StringBuilder
			redact.JoinTo(&sb2, redact.RedactableString(d2), operand)
			w.Eval(1)
			if gotAny := string(sb2.RedactableString()); canon(gotAny) != canon(wantAny) {
				viol("join-any", "JoinTo("+q(d2)+", "+sprintType(operand)+" of "+itoa(len(vals))+" elements) = "+q(gotAny)+" want the elements printed one by one with the delimiter in between: "+q(wantAny), map[string]interface{}{"delim_q": q(d2), "elems": each})
			}
		}
		nt("join")
		produced = got
	case 5: // unexported struct fields and typed containers: explicit expectation
		rr := redact.RedactableString(rs)
		type unexp struct {
			a int
			r redact.RedactableString
			b redact.RedactableBytes
		}
		cases := []struct {
			format string
			v      interface{}
			want   string
		}{
			{"%v", tS3{redact.Safe("L"), rr, redact.Safe("R")}, "{L " + rs + " R}"},
			{"%+v", tS3{redact.Safe("L"), rr, redact.Safe("R")}, "{X:L y:" + rs + " Z:R}"},
			{"%v", unexp{0, rr, redact.RedactableBytes(rs)}, "{" + startM + "0" + endM + " " + rs + " " + rs + "}"},
			{"%v", []redact.RedactableString{rr, rr}, "[" + rs + " " + rs + "]"},
			{"%s", []redact.RedactableBytes{redact.RedactableBytes(rs)}, "[" + rs + "]"},
			{"%x", [1]redact.RedactableString{rr}, "[" + rs + "]"},
			{"%v", map[redact.RedactableString]redact.RedactableBytes{rr: redact.RedactableBytes(rs)}, "map[" + rs + ":" + rs + "]"},
			{"%v", &struct{ R redact.RedactableString }{rr}, "&{" + rs + "}"},
			{"%+v", struct{ R interface{} }{rr}, "{R:" + rs + "}"},
			{"%d", tSVStruct{rr, redact.RedactableBytes(rs)}, "{" + rs + " " + rs + "}"},
			{"%q", tSVSlice{rr}, "[" + rs + "]"},
			{"%v", struct{ E error }{nil}, "{<nil>}"},
			// a verb reported for the operand as a whole: the elements are walked on the printer's error path
			{"%w", []redact.RedactableString{rr, rr}, "%!w([]markers.RedactableString=[" + rs + " " + rs + "])"},
			{"%p", [1]redact.RedactableBytes{redact.RedactableBytes(rs)}, "%!p([1]markers.RedactableBytes=[" + rs + "])"},
			{"%w", tS2{rr, redact.Safe(rr)}, "%!w(main.tS2={" + rs + " " + rs + "})"},
			{"%w", []interface{}{rr, redact.RedactableBytes(rs)}, "%!w([]interface {}=[" + rs + " " + rs + "])"},
			{"%p", tS3{rr, rr, rr}, "%!p(main.tS3={" + rs + " " + rs + " " + rs + "})"},
			{"%w", map[string]interface{}{"k": rr}, "%!w(map[string]interface {}=map[" + startM + "k" + endM + ":" + rs + "])"},
		}
		c := cases[r.Intn(len(cases))]
		got := string(redact.Sprintf(c.format, c.v))
		w.Eval(1)
		if canon(got) != canon(c.want) {
			viol("container", "Sprintf("+q(c.format)+", "+reflect.TypeOf(c.v).String()+") = "+q(got)+" want "+q(c.want), nil)
		}
		nt("container" + c.format + reflect.TypeOf(c.v).String())
		produced = got
	default: // containers through the placeholder oracle (interface-typed positions)
		lit := dS("RSlit", rs)
		if r.Bool() {
			lit = dS("RBlit", rs)
		}
		leafs := func() *D { return c05leaf(r) }
		var v *D
		switch r.Intn(9) {
		case 0:
			v = dSub("slice", leafs(), lit, leafs())
		case 1:
			v = &D{K: "map", Sub: []*D{dS("string", "k"), lit}}
		case 2:
			v = dSub("rsmap", dS("RSlit", rs), leafs())
		case 3:
			v = dSub("S2", lit, leafs())
		case 4:
			v = dSub("SEmbed", leafs(), lit, leafs())
		case 5:
			v = dSub("ptr", dSub("S2", leafs(), lit))
		case 6:
			v = dSub("arr", lit, lit)
		case 7:
			v = dSub("SVStruct", lit, leafs())
		default:
			v = dSub("RValue", dSub("slice", lit))
		}
		vs := validVerbs(v)
		if vs == "" {
			vs = "v"
		}
		d := Dir{Lit: "c=", Verb: string(vs[r.Intn(len(vs))]), Flags: []string{"", "", "+", "#", "-"}[r.Intn(5)], Width: []string{"", "", "6"}[r.Intn(3)]}
		if strings.Contains(d.Flags, "#") && d.Verb == "v" && (!sharpVOK(v) || v.K == "rsmap") {
			d.Flags = ""
		}
		call := &Call{Dirs: []Dir{d}, Args: []*D{v}}
		before := w.C.nViol.Load()
		c05check(w, map[string]bool{}, "{}", call, idx)
		_ = before
		nt("placeholder" + d.String() + v.K)
	}
	return produced
}

func runC08(c *Ctx) {
	depth := int(c.pick(6, 40))
	perGen := c.pick(150000, 500000)
	seedRng := newRng(c.Seed, 0xc08)
	pool := &c08pool{items: c08seed(seedRng, 400)}
	for gen := 0; gen < depth; gen++ {
		outs := make([]string, perGen)
		c.ParallelFor(perGen, func(w *Worker, i int64) {
			r := newRng(c.Seed, 0xc08a, uint64(gen), uint64(i))
			outs[i] = c08check(w, pool, r, i)
			if gen == depth-1 && i%20011 == 3 {
				w.Sample(map[string]interface{}{"generation": gen, "produced_q": q(outs[i])})
			}
		})
		// next generation: outputs of this one (bounded length), plus some survivors
		next := pool.items[:100]
		for _, s := range outs {
			if s != "" && len(s) <= 400 && len(next) < 500 {
				if p := parse(s); p.WellFormed {
					next = append(next, s)
				}
			}
		}
		pool = &c08pool{items: next}
		c.AddCount("generations", 1)
	}
	c.Extra("reprint_depth", depth)
	c.res.Bound = "feedback depth " + itoa(depth) + ", " + itoa(int(perGen)) + " operations per generation"
}

var c08longs = []int{7, 8, 9, 15, 16, 17, 18, 31, 32, 33, 63, 64, 65, 100, 127, 128, 129, 257, 1025}

func c08form(v interface{}) string {
	if rv, ok := v.(reflect.Value); ok {
		return "reflect.Value of kind " + rv.Kind().String() + ", type " + rv.Type().String() + ", CanInterface=" + sprint(rv.CanInterface()) + ", CanAddr=" + sprint(rv.CanAddr())
	}
	return reflect.TypeOf(v).String()
}
