package main

import "strconv"

func itoa(n int) string { return strconv.Itoa(n) }

// genLibraryOutput produces one output of the library for a random call
// (builder/printer history or print call). Used where a property also
// quantifies over "outputs produced while checking the other properties".
func genLibraryOutput(r *Rng) string {
	h := randHistory(r, 12, 25)
	var out string
	switch r.Intn(3) {
	case 0:
		out, _ = runOnBuilder(h)
	case 1:
		out, _ = runOnSprintfn(h)
	default:
		out, _ = runOnSafeFormat(h)
	}
	return out
}

func sprint(v interface{}) string { return fmtSprint(v) }
