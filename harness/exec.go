package main

// Executing print calls on the real code (all routes) and on fmt, with panic capture.

import (
	"bytes"
	"fmt"
	"strings"

	"github.com/cockroachdb/redact"
)

type outcome struct {
	out      string
	panicked bool
	pval     interface{}
	err      error // HelperForErrorf
	n        int   // Fprint*: returned byte count
}

const (
	routeS       = 0 // Sprint / Sprintf
	routeF       = 1 // Fprint / Fprintf into a bytes.Buffer
	routeBuilder = 2 // StringBuilder.Print / Printf
	routeFn      = 3 // SafePrinter.Print / Printf inside Sprintfn
	routeSF      = 4 // SafePrinter.Print / Printf inside a SafeFormat method
	routeErrorf  = 5 // HelperForErrorf (formats only)
)

var routeNames = []string{"Sprint(f)", "Fprint(f)", "StringBuilder.Print(f)", "Sprintfn{Print(f)}", "SafeFormat{Print(f)}", "HelperForErrorf"}

type sfRoute struct {
	sp     bool
	format string
	args   []interface{}
}

func (s sfRoute) SafeFormat(p redact.SafePrinter, _ rune) {
	if s.sp {
		p.Print(s.args...)
	} else {
		p.Printf(s.format, s.args...)
	}
}

// runRedact performs the call through the given route.
func runRedact(route int, sp bool, format string, args []interface{}) (o outcome) {
	defer func() {
		if r := recover(); r != nil {
			o.panicked = true
			o.pval = r
		}
	}()
	switch route {
	case routeS:
		if sp {
			o.out = string(redact.Sprint(args...))
		} else {
			o.out = string(redact.Sprintf(format, args...))
		}
	case routeF:
		var b bytes.Buffer
		if sp {
			o.n, o.err = redact.Fprint(&b, args...)
		} else {
			o.n, o.err = redact.Fprintf(&b, format, args...)
		}
		o.out = b.String()
	case routeBuilder:
		var b redact.StringBuilder
		if sp {
			b.Print(args...)
		} else {
			b.Printf(format, args...)
		}
		o.out = string(b.RedactableString())
	case routeFn:
		o.out = string(redact.Sprintfn(func(p redact.SafePrinter) {
			if sp {
				p.Print(args...)
			} else {
				p.Printf(format, args...)
			}
		}))
	case routeSF:
		o.out = string(redact.Sprint(sfRoute{sp, format, args}))
	case routeErrorf:
		var s redact.RedactableString
		s, o.err = redact.HelperForErrorf(format, args...)
		o.out = string(s)
	}
	return o
}

// runCall builds the operands of c (inside the recover scope: building a
// redactable operand is itself a library call that may propagate a user
// panic) and performs the call through route.
func runCall(route int, c *Call) (o outcome, built bool) {
	return runCallWith(newBuildCtx(), route, c)
}

// runCallWith is runCall with a caller-supplied build context.
func runCallWith(bc *buildCtx, route int, c *Call) (o outcome, built bool) {
	var args []interface{}
	func() {
		defer func() {
			if r := recover(); r != nil {
				o.panicked = true
				o.pval = r
			}
		}()
		args = c.operands(bc.real)
		built = true
	}()
	if !built {
		return o, false
	}
	return runRedact(route, c.Sp, c.format(), args), true
}

// runFmt performs the corresponding fmt call.
func runFmt(fprint bool, sp bool, format string, args []interface{}) (o outcome) {
	defer func() {
		if r := recover(); r != nil {
			o.panicked = true
			o.pval = r
		}
	}()
	if fprint {
		var b bytes.Buffer
		if sp {
			o.n, o.err = fmt.Fprint(&b, args...)
		} else {
			o.n, o.err = fmt.Fprintf(&b, format, args...)
		}
		o.out = b.String()
		return o
	}
	if sp {
		o.out = fmt.Sprint(args...)
	} else {
		o.out = fmt.Sprintf(format, args...)
	}
	return o
}

// pvalString renders a recovered panic value without risking another panic.
func pvalString(v interface{}) (s string) {
	defer func() {
		if recover() != nil {
			s = fmt.Sprintf("<%T: unprintable>", v)
		}
	}()
	return fmt.Sprintf("%T:%v", v, v)
}

// hasZeroMinus reports whether some directive of the format combines the '0'
// flag with '-' (or with a '*' width, which may turn negative): fmt changed
// its treatment across Go releases, the statement of C04 excludes it.
func hasZeroMinus(format string) bool {
	for i := 0; i < len(format); i++ {
		if format[i] != '%' {
			continue
		}
		zero, minus := false, false
		j := i + 1
		for ; j < len(format); j++ {
			c := format[j]
			if c == '0' {
				zero = true
			} else if c == '-' {
				minus = true
			} else if c != '+' && c != '#' && c != ' ' {
				break
			}
		}
		if zero && minus {
			return true
		}
		if zero {
			// skip an argument index, then look for '*'
			k := j
			if k < len(format) && format[k] == '[' {
				for k < len(format) && format[k] != ']' {
					k++
				}
				k++
			}
			if k < len(format) && format[k] == '*' {
				return true
			}
		}
		i = j - 1
		if i < 0 {
			i = 0
		}
	}
	return false
}

// hasVerbW: coarse test for a %w directive.
func hasVerbW(format string) bool { return strings.Contains(format, "w") }
