package main

// Code generated for C12: named types that nobody prints before the concurrent first-use workload.
// (reflect.StructOf types have no methods; lazily filled per-type tables keyed by method sets need declared types.)

import "strconv"

type svT000 int

func (svT000) SafeValue() {}

type stT000 int

func (v stT000) String() string { return "st" + strconv.Itoa(int(v)) }

type erT000 struct{ n int }

func (v erT000) Error() string { return "er" + strconv.Itoa(v.n) }

type sfT000 struct{ n int }

func (v sfT000) SafeFormat(p safePrinterT, _ rune) { p.SafeInt(safeIntT(v.n)); p.UnsafeString("u") }

type svT001 int

func (svT001) SafeValue() {}

type stT001 int

func (v stT001) String() string { return "st" + strconv.Itoa(int(v)) }

type erT001 struct{ n int }

func (v erT001) Error() string { return "er" + strconv.Itoa(v.n) }

type sfT001 struct{ n int }

func (v sfT001) SafeFormat(p safePrinterT, _ rune) { p.SafeInt(safeIntT(v.n)); p.UnsafeString("u") }

type svT002 int

func (svT002) SafeValue() {}

type stT002 int

func (v stT002) String() string { return "st" + strconv.Itoa(int(v)) }

type erT002 struct{ n int }

func (v erT002) Error() string { return "er" + strconv.Itoa(v.n) }

type sfT002 struct{ n int }

func (v sfT002) SafeFormat(p safePrinterT, _ rune) { p.SafeInt(safeIntT(v.n)); p.UnsafeString("u") }

type svT003 int

func (svT003) SafeValue() {}

type stT003 int

func (v stT003) String() string { return "st" + strconv.Itoa(int(v)) }

type erT003 struct{ n int }

func (v erT003) Error() string { return "er" + strconv.Itoa(v.n) }

type sfT003 struct{ n int }

func (v sfT003) SafeFormat(p safePrinterT, _ rune) { p.SafeInt(safeIntT(v.n)); p.UnsafeString("u") }

type svT004 int

func (svT004) SafeValue() {}

type stT004 int

func (v stT004) String() string { return "st" + strconv.Itoa(int(v)) }

type erT004 struct{ n int }

func (v erT004) Error() string { return "er" + strconv.Itoa(v.n) }

type sfT004 struct{ n int }

func (v sfT004) SafeFormat(p safePrinterT, _ rune) { p.SafeInt(safeIntT(v.n)); p.UnsafeString("u") }

type svT005 int

func (svT005) SafeValue() {}

type stT005 int

func (v stT005) String() string { return "st" + strconv.Itoa(int(v)) }

type erT005 struct{ n int }

func (v erT005) Error() string { return "er" + strconv.Itoa(v.n) }

type sfT005 struct{ n int }

func (v sfT005) SafeFormat(p safePrinterT, _ rune) { p.SafeInt(safeIntT(v.n)); p.UnsafeString("u") }

type svT006 int

func (svT006) SafeValue() {}

type stT006 int

func (v stT006) String() string { return "st" + strconv.Itoa(int(v)) }

type erT006 struct{ n int }

func (v erT006) Error() string { return "er" + strconv.Itoa(v.n) }

type sfT006 struct{ n int }

func (v sfT006) SafeFormat(p safePrinterT, _ rune) { p.SafeInt(safeIntT(v.n)); p.UnsafeString("u") }

type svT007 int

func (svT007) SafeValue() {}

type stT007 int

func (v stT007) String() string { return "st" + strconv.Itoa(int(v)) }

type erT007 struct{ n int }

func (v erT007) Error() string { return "er" + strconv.Itoa(v.n) }

type sfT007 struct{ n int }

func (v sfT007) SafeFormat(p safePrinterT, _ rune) { p.SafeInt(safeIntT(v.n)); p.UnsafeString("u") }

type svT008 int

func (svT008) SafeValue() {}

type stT008 int

func (v stT008) String() string { return "st" + strconv.Itoa(int(v)) }

type erT008 struct{ n int }

func (v erT008) Error() string { return "er" + strconv.Itoa(v.n) }

type sfT008 struct{ n int }

func (v sfT008) SafeFormat(p safePrinterT, _ rune) { p.SafeInt(safeIntT(v.n)); p.UnsafeString("u") }

type svT009 int

func (svT009) SafeValue() {}

type stT009 int

func (v stT009) String() string { return "st" + strconv.Itoa(int(v)) }

type erT009 struct{ n int }

func (v erT009) Error() string { return "er" + strconv.Itoa(v.n) }

type sfT009 struct{ n int }

func (v sfT009) SafeFormat(p safePrinterT, _ rune) { p.SafeInt(safeIntT(v.n)); p.UnsafeString("u") }

type svT010 int

func (svT010) SafeValue() {}

type stT010 int

func (v stT010) String() string { return "st" + strconv.Itoa(int(v)) }

type erT010 struct{ n int }

func (v erT010) Error() string { return "er" + strconv.Itoa(v.n) }

type sfT010 struct{ n int }

func (v sfT010) SafeFormat(p safePrinterT, _ rune) { p.SafeInt(safeIntT(v.n)); p.UnsafeString("u") }

type svT011 int

func (svT011) SafeValue() {}

type stT011 int

func (v stT011) String() string { return "st" + strconv.Itoa(int(v)) }

type erT011 struct{ n int }

func (v erT011) Error() string { return "er" + strconv.Itoa(v.n) }

type sfT011 struct{ n int }

func (v sfT011) SafeFormat(p safePrinterT, _ rune) { p.SafeInt(safeIntT(v.n)); p.UnsafeString("u") }

type svT012 int

func (svT012) SafeValue() {}

type stT012 int

func (v stT012) String() string { return "st" + strconv.Itoa(int(v)) }

type erT012 struct{ n int }

func (v erT012) Error() string { return "er" + strconv.Itoa(v.n) }

type sfT012 struct{ n int }

func (v sfT012) SafeFormat(p safePrinterT, _ rune) { p.SafeInt(safeIntT(v.n)); p.UnsafeString("u") }

type svT013 int

func (svT013) SafeValue() {}

type stT013 int

func (v stT013) String() string { return "st" + strconv.Itoa(int(v)) }

type erT013 struct{ n int }

func (v erT013) Error() string { return "er" + strconv.Itoa(v.n) }

type sfT013 struct{ n int }

func (v sfT013) SafeFormat(p safePrinterT, _ rune) { p.SafeInt(safeIntT(v.n)); p.UnsafeString("u") }

type svT014 int

func (svT014) SafeValue() {}

type stT014 int

func (v stT014) String() string { return "st" + strconv.Itoa(int(v)) }

type erT014 struct{ n int }

func (v erT014) Error() string { return "er" + strconv.Itoa(v.n) }

type sfT014 struct{ n int }

func (v sfT014) SafeFormat(p safePrinterT, _ rune) { p.SafeInt(safeIntT(v.n)); p.UnsafeString("u") }

type svT015 int

func (svT015) SafeValue() {}

type stT015 int

func (v stT015) String() string { return "st" + strconv.Itoa(int(v)) }

type erT015 struct{ n int }

func (v erT015) Error() string { return "er" + strconv.Itoa(v.n) }

type sfT015 struct{ n int }

func (v sfT015) SafeFormat(p safePrinterT, _ rune) { p.SafeInt(safeIntT(v.n)); p.UnsafeString("u") }

type svT016 int

func (svT016) SafeValue() {}

type stT016 int

func (v stT016) String() string { return "st" + strconv.Itoa(int(v)) }

type erT016 struct{ n int }

func (v erT016) Error() string { return "er" + strconv.Itoa(v.n) }

type sfT016 struct{ n int }

func (v sfT016) SafeFormat(p safePrinterT, _ rune) { p.SafeInt(safeIntT(v.n)); p.UnsafeString("u") }

type svT017 int

func (svT017) SafeValue() {}

type stT017 int

func (v stT017) String() string { return "st" + strconv.Itoa(int(v)) }

type erT017 struct{ n int }

func (v erT017) Error() string { return "er" + strconv.Itoa(v.n) }

type sfT017 struct{ n int }

func (v sfT017) SafeFormat(p safePrinterT, _ rune) { p.SafeInt(safeIntT(v.n)); p.UnsafeString("u") }

type svT018 int

func (svT018) SafeValue() {}

type stT018 int

func (v stT018) String() string { return "st" + strconv.Itoa(int(v)) }

type erT018 struct{ n int }

func (v erT018) Error() string { return "er" + strconv.Itoa(v.n) }

type sfT018 struct{ n int }

func (v sfT018) SafeFormat(p safePrinterT, _ rune) { p.SafeInt(safeIntT(v.n)); p.UnsafeString("u") }

type svT019 int

func (svT019) SafeValue() {}

type stT019 int

func (v stT019) String() string { return "st" + strconv.Itoa(int(v)) }

type erT019 struct{ n int }

func (v erT019) Error() string { return "er" + strconv.Itoa(v.n) }

type sfT019 struct{ n int }

func (v sfT019) SafeFormat(p safePrinterT, _ rune) { p.SafeInt(safeIntT(v.n)); p.UnsafeString("u") }

type svT020 int

func (svT020) SafeValue() {}

type stT020 int

func (v stT020) String() string { return "st" + strconv.Itoa(int(v)) }

type erT020 struct{ n int }

func (v erT020) Error() string { return "er" + strconv.Itoa(v.n) }

type sfT020 struct{ n int }

func (v sfT020) SafeFormat(p safePrinterT, _ rune) { p.SafeInt(safeIntT(v.n)); p.UnsafeString("u") }

type svT021 int

func (svT021) SafeValue() {}

type stT021 int

func (v stT021) String() string { return "st" + strconv.Itoa(int(v)) }

type erT021 struct{ n int }

func (v erT021) Error() string { return "er" + strconv.Itoa(v.n) }

type sfT021 struct{ n int }

func (v sfT021) SafeFormat(p safePrinterT, _ rune) { p.SafeInt(safeIntT(v.n)); p.UnsafeString("u") }

type svT022 int

func (svT022) SafeValue() {}

type stT022 int

func (v stT022) String() string { return "st" + strconv.Itoa(int(v)) }

type erT022 struct{ n int }

func (v erT022) Error() string { return "er" + strconv.Itoa(v.n) }

type sfT022 struct{ n int }

func (v sfT022) SafeFormat(p safePrinterT, _ rune) { p.SafeInt(safeIntT(v.n)); p.UnsafeString("u") }

type svT023 int

func (svT023) SafeValue() {}

type stT023 int

func (v stT023) String() string { return "st" + strconv.Itoa(int(v)) }

type erT023 struct{ n int }

func (v erT023) Error() string { return "er" + strconv.Itoa(v.n) }

type sfT023 struct{ n int }

func (v sfT023) SafeFormat(p safePrinterT, _ rune) { p.SafeInt(safeIntT(v.n)); p.UnsafeString("u") }

type svT024 int

func (svT024) SafeValue() {}

type stT024 int

func (v stT024) String() string { return "st" + strconv.Itoa(int(v)) }

type erT024 struct{ n int }

func (v erT024) Error() string { return "er" + strconv.Itoa(v.n) }

type sfT024 struct{ n int }

func (v sfT024) SafeFormat(p safePrinterT, _ rune) { p.SafeInt(safeIntT(v.n)); p.UnsafeString("u") }

type svT025 int

func (svT025) SafeValue() {}

type stT025 int

func (v stT025) String() string { return "st" + strconv.Itoa(int(v)) }

type erT025 struct{ n int }

func (v erT025) Error() string { return "er" + strconv.Itoa(v.n) }

type sfT025 struct{ n int }

func (v sfT025) SafeFormat(p safePrinterT, _ rune) { p.SafeInt(safeIntT(v.n)); p.UnsafeString("u") }

type svT026 int

func (svT026) SafeValue() {}

type stT026 int

func (v stT026) String() string { return "st" + strconv.Itoa(int(v)) }

type erT026 struct{ n int }

func (v erT026) Error() string { return "er" + strconv.Itoa(v.n) }

type sfT026 struct{ n int }

func (v sfT026) SafeFormat(p safePrinterT, _ rune) { p.SafeInt(safeIntT(v.n)); p.UnsafeString("u") }

type svT027 int

func (svT027) SafeValue() {}

type stT027 int

func (v stT027) String() string { return "st" + strconv.Itoa(int(v)) }

type erT027 struct{ n int }

func (v erT027) Error() string { return "er" + strconv.Itoa(v.n) }

type sfT027 struct{ n int }

func (v sfT027) SafeFormat(p safePrinterT, _ rune) { p.SafeInt(safeIntT(v.n)); p.UnsafeString("u") }

type svT028 int

func (svT028) SafeValue() {}

type stT028 int

func (v stT028) String() string { return "st" + strconv.Itoa(int(v)) }

type erT028 struct{ n int }

func (v erT028) Error() string { return "er" + strconv.Itoa(v.n) }

type sfT028 struct{ n int }

func (v sfT028) SafeFormat(p safePrinterT, _ rune) { p.SafeInt(safeIntT(v.n)); p.UnsafeString("u") }

type svT029 int

func (svT029) SafeValue() {}

type stT029 int

func (v stT029) String() string { return "st" + strconv.Itoa(int(v)) }

type erT029 struct{ n int }

func (v erT029) Error() string { return "er" + strconv.Itoa(v.n) }

type sfT029 struct{ n int }

func (v sfT029) SafeFormat(p safePrinterT, _ rune) { p.SafeInt(safeIntT(v.n)); p.UnsafeString("u") }

type svT030 int

func (svT030) SafeValue() {}

type stT030 int

func (v stT030) String() string { return "st" + strconv.Itoa(int(v)) }

type erT030 struct{ n int }

func (v erT030) Error() string { return "er" + strconv.Itoa(v.n) }

type sfT030 struct{ n int }

func (v sfT030) SafeFormat(p safePrinterT, _ rune) { p.SafeInt(safeIntT(v.n)); p.UnsafeString("u") }

type svT031 int

func (svT031) SafeValue() {}

type stT031 int

func (v stT031) String() string { return "st" + strconv.Itoa(int(v)) }

type erT031 struct{ n int }

func (v erT031) Error() string { return "er" + strconv.Itoa(v.n) }

type sfT031 struct{ n int }

func (v sfT031) SafeFormat(p safePrinterT, _ rune) { p.SafeInt(safeIntT(v.n)); p.UnsafeString("u") }

type svT032 int

func (svT032) SafeValue() {}

type stT032 int

func (v stT032) String() string { return "st" + strconv.Itoa(int(v)) }

type erT032 struct{ n int }

func (v erT032) Error() string { return "er" + strconv.Itoa(v.n) }

type sfT032 struct{ n int }

func (v sfT032) SafeFormat(p safePrinterT, _ rune) { p.SafeInt(safeIntT(v.n)); p.UnsafeString("u") }

type svT033 int

func (svT033) SafeValue() {}

type stT033 int

func (v stT033) String() string { return "st" + strconv.Itoa(int(v)) }

type erT033 struct{ n int }

func (v erT033) Error() string { return "er" + strconv.Itoa(v.n) }

type sfT033 struct{ n int }

func (v sfT033) SafeFormat(p safePrinterT, _ rune) { p.SafeInt(safeIntT(v.n)); p.UnsafeString("u") }

type svT034 int

func (svT034) SafeValue() {}

type stT034 int

func (v stT034) String() string { return "st" + strconv.Itoa(int(v)) }

type erT034 struct{ n int }

func (v erT034) Error() string { return "er" + strconv.Itoa(v.n) }

type sfT034 struct{ n int }

func (v sfT034) SafeFormat(p safePrinterT, _ rune) { p.SafeInt(safeIntT(v.n)); p.UnsafeString("u") }

type svT035 int

func (svT035) SafeValue() {}

type stT035 int

func (v stT035) String() string { return "st" + strconv.Itoa(int(v)) }

type erT035 struct{ n int }

func (v erT035) Error() string { return "er" + strconv.Itoa(v.n) }

type sfT035 struct{ n int }

func (v sfT035) SafeFormat(p safePrinterT, _ rune) { p.SafeInt(safeIntT(v.n)); p.UnsafeString("u") }

type svT036 int

func (svT036) SafeValue() {}

type stT036 int

func (v stT036) String() string { return "st" + strconv.Itoa(int(v)) }

type erT036 struct{ n int }

func (v erT036) Error() string { return "er" + strconv.Itoa(v.n) }

type sfT036 struct{ n int }

func (v sfT036) SafeFormat(p safePrinterT, _ rune) { p.SafeInt(safeIntT(v.n)); p.UnsafeString("u") }

type svT037 int

func (svT037) SafeValue() {}

type stT037 int

func (v stT037) String() string { return "st" + strconv.Itoa(int(v)) }

type erT037 struct{ n int }

func (v erT037) Error() string { return "er" + strconv.Itoa(v.n) }

type sfT037 struct{ n int }

func (v sfT037) SafeFormat(p safePrinterT, _ rune) { p.SafeInt(safeIntT(v.n)); p.UnsafeString("u") }

type svT038 int

func (svT038) SafeValue() {}

type stT038 int

func (v stT038) String() string { return "st" + strconv.Itoa(int(v)) }

type erT038 struct{ n int }

func (v erT038) Error() string { return "er" + strconv.Itoa(v.n) }

type sfT038 struct{ n int }

func (v sfT038) SafeFormat(p safePrinterT, _ rune) { p.SafeInt(safeIntT(v.n)); p.UnsafeString("u") }

type svT039 int

func (svT039) SafeValue() {}

type stT039 int

func (v stT039) String() string { return "st" + strconv.Itoa(int(v)) }

type erT039 struct{ n int }

func (v erT039) Error() string { return "er" + strconv.Itoa(v.n) }

type sfT039 struct{ n int }

func (v sfT039) SafeFormat(p safePrinterT, _ rune) { p.SafeInt(safeIntT(v.n)); p.UnsafeString("u") }

type svT040 int

func (svT040) SafeValue() {}

type stT040 int

func (v stT040) String() string { return "st" + strconv.Itoa(int(v)) }

type erT040 struct{ n int }

func (v erT040) Error() string { return "er" + strconv.Itoa(v.n) }

type sfT040 struct{ n int }

func (v sfT040) SafeFormat(p safePrinterT, _ rune) { p.SafeInt(safeIntT(v.n)); p.UnsafeString("u") }

type svT041 int

func (svT041) SafeValue() {}

type stT041 int

func (v stT041) String() string { return "st" + strconv.Itoa(int(v)) }

type erT041 struct{ n int }

func (v erT041) Error() string { return "er" + strconv.Itoa(v.n) }

type sfT041 struct{ n int }

func (v sfT041) SafeFormat(p safePrinterT, _ rune) { p.SafeInt(safeIntT(v.n)); p.UnsafeString("u") }

type svT042 int

func (svT042) SafeValue() {}

type stT042 int

func (v stT042) String() string { return "st" + strconv.Itoa(int(v)) }

type erT042 struct{ n int }

func (v erT042) Error() string { return "er" + strconv.Itoa(v.n) }

type sfT042 struct{ n int }

func (v sfT042) SafeFormat(p safePrinterT, _ rune) { p.SafeInt(safeIntT(v.n)); p.UnsafeString("u") }

type svT043 int

func (svT043) SafeValue() {}

type stT043 int

func (v stT043) String() string { return "st" + strconv.Itoa(int(v)) }

type erT043 struct{ n int }

func (v erT043) Error() string { return "er" + strconv.Itoa(v.n) }

type sfT043 struct{ n int }

func (v sfT043) SafeFormat(p safePrinterT, _ rune) { p.SafeInt(safeIntT(v.n)); p.UnsafeString("u") }

type svT044 int

func (svT044) SafeValue() {}

type stT044 int

func (v stT044) String() string { return "st" + strconv.Itoa(int(v)) }

type erT044 struct{ n int }

func (v erT044) Error() string { return "er" + strconv.Itoa(v.n) }

type sfT044 struct{ n int }

func (v sfT044) SafeFormat(p safePrinterT, _ rune) { p.SafeInt(safeIntT(v.n)); p.UnsafeString("u") }

type svT045 int

func (svT045) SafeValue() {}

type stT045 int

func (v stT045) String() string { return "st" + strconv.Itoa(int(v)) }

type erT045 struct{ n int }

func (v erT045) Error() string { return "er" + strconv.Itoa(v.n) }

type sfT045 struct{ n int }

func (v sfT045) SafeFormat(p safePrinterT, _ rune) { p.SafeInt(safeIntT(v.n)); p.UnsafeString("u") }

type svT046 int

func (svT046) SafeValue() {}

type stT046 int

func (v stT046) String() string { return "st" + strconv.Itoa(int(v)) }

type erT046 struct{ n int }

func (v erT046) Error() string { return "er" + strconv.Itoa(v.n) }

type sfT046 struct{ n int }

func (v sfT046) SafeFormat(p safePrinterT, _ rune) { p.SafeInt(safeIntT(v.n)); p.UnsafeString("u") }

type svT047 int

func (svT047) SafeValue() {}

type stT047 int

func (v stT047) String() string { return "st" + strconv.Itoa(int(v)) }

type erT047 struct{ n int }

func (v erT047) Error() string { return "er" + strconv.Itoa(v.n) }

type sfT047 struct{ n int }

func (v sfT047) SafeFormat(p safePrinterT, _ rune) { p.SafeInt(safeIntT(v.n)); p.UnsafeString("u") }

type svT048 int

func (svT048) SafeValue() {}

type stT048 int

func (v stT048) String() string { return "st" + strconv.Itoa(int(v)) }

type erT048 struct{ n int }

func (v erT048) Error() string { return "er" + strconv.Itoa(v.n) }

type sfT048 struct{ n int }

func (v sfT048) SafeFormat(p safePrinterT, _ rune) { p.SafeInt(safeIntT(v.n)); p.UnsafeString("u") }

type svT049 int

func (svT049) SafeValue() {}

type stT049 int

func (v stT049) String() string { return "st" + strconv.Itoa(int(v)) }

type erT049 struct{ n int }

func (v erT049) Error() string { return "er" + strconv.Itoa(v.n) }

type sfT049 struct{ n int }

func (v sfT049) SafeFormat(p safePrinterT, _ rune) { p.SafeInt(safeIntT(v.n)); p.UnsafeString("u") }

type svT050 int

func (svT050) SafeValue() {}

type stT050 int

func (v stT050) String() string { return "st" + strconv.Itoa(int(v)) }

type erT050 struct{ n int }

func (v erT050) Error() string { return "er" + strconv.Itoa(v.n) }

type sfT050 struct{ n int }

func (v sfT050) SafeFormat(p safePrinterT, _ rune) { p.SafeInt(safeIntT(v.n)); p.UnsafeString("u") }

type svT051 int

func (svT051) SafeValue() {}

type stT051 int

func (v stT051) String() string { return "st" + strconv.Itoa(int(v)) }

type erT051 struct{ n int }

func (v erT051) Error() string { return "er" + strconv.Itoa(v.n) }

type sfT051 struct{ n int }

func (v sfT051) SafeFormat(p safePrinterT, _ rune) { p.SafeInt(safeIntT(v.n)); p.UnsafeString("u") }

type svT052 int

func (svT052) SafeValue() {}

type stT052 int

func (v stT052) String() string { return "st" + strconv.Itoa(int(v)) }

type erT052 struct{ n int }

func (v erT052) Error() string { return "er" + strconv.Itoa(v.n) }

type sfT052 struct{ n int }

func (v sfT052) SafeFormat(p safePrinterT, _ rune) { p.SafeInt(safeIntT(v.n)); p.UnsafeString("u") }

type svT053 int

func (svT053) SafeValue() {}

type stT053 int

func (v stT053) String() string { return "st" + strconv.Itoa(int(v)) }

type erT053 struct{ n int }

func (v erT053) Error() string { return "er" + strconv.Itoa(v.n) }

type sfT053 struct{ n int }

func (v sfT053) SafeFormat(p safePrinterT, _ rune) { p.SafeInt(safeIntT(v.n)); p.UnsafeString("u") }

type svT054 int

func (svT054) SafeValue() {}

type stT054 int

func (v stT054) String() string { return "st" + strconv.Itoa(int(v)) }

type erT054 struct{ n int }

func (v erT054) Error() string { return "er" + strconv.Itoa(v.n) }

type sfT054 struct{ n int }

func (v sfT054) SafeFormat(p safePrinterT, _ rune) { p.SafeInt(safeIntT(v.n)); p.UnsafeString("u") }

type svT055 int

func (svT055) SafeValue() {}

type stT055 int

func (v stT055) String() string { return "st" + strconv.Itoa(int(v)) }

type erT055 struct{ n int }

func (v erT055) Error() string { return "er" + strconv.Itoa(v.n) }

type sfT055 struct{ n int }

func (v sfT055) SafeFormat(p safePrinterT, _ rune) { p.SafeInt(safeIntT(v.n)); p.UnsafeString("u") }

type svT056 int

func (svT056) SafeValue() {}

type stT056 int

func (v stT056) String() string { return "st" + strconv.Itoa(int(v)) }

type erT056 struct{ n int }

func (v erT056) Error() string { return "er" + strconv.Itoa(v.n) }

type sfT056 struct{ n int }

func (v sfT056) SafeFormat(p safePrinterT, _ rune) { p.SafeInt(safeIntT(v.n)); p.UnsafeString("u") }

type svT057 int

func (svT057) SafeValue() {}

type stT057 int

func (v stT057) String() string { return "st" + strconv.Itoa(int(v)) }

type erT057 struct{ n int }

func (v erT057) Error() string { return "er" + strconv.Itoa(v.n) }

type sfT057 struct{ n int }

func (v sfT057) SafeFormat(p safePrinterT, _ rune) { p.SafeInt(safeIntT(v.n)); p.UnsafeString("u") }

type svT058 int

func (svT058) SafeValue() {}

type stT058 int

func (v stT058) String() string { return "st" + strconv.Itoa(int(v)) }

type erT058 struct{ n int }

func (v erT058) Error() string { return "er" + strconv.Itoa(v.n) }

type sfT058 struct{ n int }

func (v sfT058) SafeFormat(p safePrinterT, _ rune) { p.SafeInt(safeIntT(v.n)); p.UnsafeString("u") }

type svT059 int

func (svT059) SafeValue() {}

type stT059 int

func (v stT059) String() string { return "st" + strconv.Itoa(int(v)) }

type erT059 struct{ n int }

func (v erT059) Error() string { return "er" + strconv.Itoa(v.n) }

type sfT059 struct{ n int }

func (v sfT059) SafeFormat(p safePrinterT, _ rune) { p.SafeInt(safeIntT(v.n)); p.UnsafeString("u") }

type svT060 int

func (svT060) SafeValue() {}

type stT060 int

func (v stT060) String() string { return "st" + strconv.Itoa(int(v)) }

type erT060 struct{ n int }

func (v erT060) Error() string { return "er" + strconv.Itoa(v.n) }

type sfT060 struct{ n int }

func (v sfT060) SafeFormat(p safePrinterT, _ rune) { p.SafeInt(safeIntT(v.n)); p.UnsafeString("u") }

type svT061 int

func (svT061) SafeValue() {}

type stT061 int

func (v stT061) String() string { return "st" + strconv.Itoa(int(v)) }

type erT061 struct{ n int }

func (v erT061) Error() string { return "er" + strconv.Itoa(v.n) }

type sfT061 struct{ n int }

func (v sfT061) SafeFormat(p safePrinterT, _ rune) { p.SafeInt(safeIntT(v.n)); p.UnsafeString("u") }

type svT062 int

func (svT062) SafeValue() {}

type stT062 int

func (v stT062) String() string { return "st" + strconv.Itoa(int(v)) }

type erT062 struct{ n int }

func (v erT062) Error() string { return "er" + strconv.Itoa(v.n) }

type sfT062 struct{ n int }

func (v sfT062) SafeFormat(p safePrinterT, _ rune) { p.SafeInt(safeIntT(v.n)); p.UnsafeString("u") }

type svT063 int

func (svT063) SafeValue() {}

type stT063 int

func (v stT063) String() string { return "st" + strconv.Itoa(int(v)) }

type erT063 struct{ n int }

func (v erT063) Error() string { return "er" + strconv.Itoa(v.n) }

type sfT063 struct{ n int }

func (v sfT063) SafeFormat(p safePrinterT, _ rune) { p.SafeInt(safeIntT(v.n)); p.UnsafeString("u") }

// firstUseValues: one value of each type, with the text fmt-style printing gives it (unsafe parts bracketed by \x01 \x02).
var firstUseValues = []struct {
	v    interface{}
	want string
}{
	{svT000(0), "0"},
	{stT000(0), "\x01st0\x02"},
	{erT000{0}, "\x01er0\x02"},
	{sfT000{0}, "0\x01u\x02"},
	{svT001(1), "1"},
	{stT001(1), "\x01st1\x02"},
	{erT001{1}, "\x01er1\x02"},
	{sfT001{1}, "1\x01u\x02"},
	{svT002(2), "2"},
	{stT002(2), "\x01st2\x02"},
	{erT002{2}, "\x01er2\x02"},
	{sfT002{2}, "2\x01u\x02"},
	{svT003(3), "3"},
	{stT003(3), "\x01st3\x02"},
	{erT003{3}, "\x01er3\x02"},
	{sfT003{3}, "3\x01u\x02"},
	{svT004(4), "4"},
	{stT004(4), "\x01st4\x02"},
	{erT004{4}, "\x01er4\x02"},
	{sfT004{4}, "4\x01u\x02"},
	{svT005(5), "5"},
	{stT005(5), "\x01st5\x02"},
	{erT005{5}, "\x01er5\x02"},
	{sfT005{5}, "5\x01u\x02"},
	{svT006(6), "6"},
	{stT006(6), "\x01st6\x02"},
	{erT006{6}, "\x01er6\x02"},
	{sfT006{6}, "6\x01u\x02"},
	{svT007(7), "7"},
	{stT007(7), "\x01st7\x02"},
	{erT007{7}, "\x01er7\x02"},
	{sfT007{7}, "7\x01u\x02"},
	{svT008(8), "8"},
	{stT008(8), "\x01st8\x02"},
	{erT008{8}, "\x01er8\x02"},
	{sfT008{8}, "8\x01u\x02"},
	{svT009(9), "9"},
	{stT009(9), "\x01st9\x02"},
	{erT009{9}, "\x01er9\x02"},
	{sfT009{9}, "9\x01u\x02"},
	{svT010(10), "10"},
	{stT010(10), "\x01st10\x02"},
	{erT010{10}, "\x01er10\x02"},
	{sfT010{10}, "10\x01u\x02"},
	{svT011(11), "11"},
	{stT011(11), "\x01st11\x02"},
	{erT011{11}, "\x01er11\x02"},
	{sfT011{11}, "11\x01u\x02"},
	{svT012(12), "12"},
	{stT012(12), "\x01st12\x02"},
	{erT012{12}, "\x01er12\x02"},
	{sfT012{12}, "12\x01u\x02"},
	{svT013(13), "13"},
	{stT013(13), "\x01st13\x02"},
	{erT013{13}, "\x01er13\x02"},
	{sfT013{13}, "13\x01u\x02"},
	{svT014(14), "14"},
	{stT014(14), "\x01st14\x02"},
	{erT014{14}, "\x01er14\x02"},
	{sfT014{14}, "14\x01u\x02"},
	{svT015(15), "15"},
	{stT015(15), "\x01st15\x02"},
	{erT015{15}, "\x01er15\x02"},
	{sfT015{15}, "15\x01u\x02"},
	{svT016(16), "16"},
	{stT016(16), "\x01st16\x02"},
	{erT016{16}, "\x01er16\x02"},
	{sfT016{16}, "16\x01u\x02"},
	{svT017(17), "17"},
	{stT017(17), "\x01st17\x02"},
	{erT017{17}, "\x01er17\x02"},
	{sfT017{17}, "17\x01u\x02"},
	{svT018(18), "18"},
	{stT018(18), "\x01st18\x02"},
	{erT018{18}, "\x01er18\x02"},
	{sfT018{18}, "18\x01u\x02"},
	{svT019(19), "19"},
	{stT019(19), "\x01st19\x02"},
	{erT019{19}, "\x01er19\x02"},
	{sfT019{19}, "19\x01u\x02"},
	{svT020(20), "20"},
	{stT020(20), "\x01st20\x02"},
	{erT020{20}, "\x01er20\x02"},
	{sfT020{20}, "20\x01u\x02"},
	{svT021(21), "21"},
	{stT021(21), "\x01st21\x02"},
	{erT021{21}, "\x01er21\x02"},
	{sfT021{21}, "21\x01u\x02"},
	{svT022(22), "22"},
	{stT022(22), "\x01st22\x02"},
	{erT022{22}, "\x01er22\x02"},
	{sfT022{22}, "22\x01u\x02"},
	{svT023(23), "23"},
	{stT023(23), "\x01st23\x02"},
	{erT023{23}, "\x01er23\x02"},
	{sfT023{23}, "23\x01u\x02"},
	{svT024(24), "24"},
	{stT024(24), "\x01st24\x02"},
	{erT024{24}, "\x01er24\x02"},
	{sfT024{24}, "24\x01u\x02"},
	{svT025(25), "25"},
	{stT025(25), "\x01st25\x02"},
	{erT025{25}, "\x01er25\x02"},
	{sfT025{25}, "25\x01u\x02"},
	{svT026(26), "26"},
	{stT026(26), "\x01st26\x02"},
	{erT026{26}, "\x01er26\x02"},
	{sfT026{26}, "26\x01u\x02"},
	{svT027(27), "27"},
	{stT027(27), "\x01st27\x02"},
	{erT027{27}, "\x01er27\x02"},
	{sfT027{27}, "27\x01u\x02"},
	{svT028(28), "28"},
	{stT028(28), "\x01st28\x02"},
	{erT028{28}, "\x01er28\x02"},
	{sfT028{28}, "28\x01u\x02"},
	{svT029(29), "29"},
	{stT029(29), "\x01st29\x02"},
	{erT029{29}, "\x01er29\x02"},
	{sfT029{29}, "29\x01u\x02"},
	{svT030(30), "30"},
	{stT030(30), "\x01st30\x02"},
	{erT030{30}, "\x01er30\x02"},
	{sfT030{30}, "30\x01u\x02"},
	{svT031(31), "31"},
	{stT031(31), "\x01st31\x02"},
	{erT031{31}, "\x01er31\x02"},
	{sfT031{31}, "31\x01u\x02"},
	{svT032(32), "32"},
	{stT032(32), "\x01st32\x02"},
	{erT032{32}, "\x01er32\x02"},
	{sfT032{32}, "32\x01u\x02"},
	{svT033(33), "33"},
	{stT033(33), "\x01st33\x02"},
	{erT033{33}, "\x01er33\x02"},
	{sfT033{33}, "33\x01u\x02"},
	{svT034(34), "34"},
	{stT034(34), "\x01st34\x02"},
	{erT034{34}, "\x01er34\x02"},
	{sfT034{34}, "34\x01u\x02"},
	{svT035(35), "35"},
	{stT035(35), "\x01st35\x02"},
	{erT035{35}, "\x01er35\x02"},
	{sfT035{35}, "35\x01u\x02"},
	{svT036(36), "36"},
	{stT036(36), "\x01st36\x02"},
	{erT036{36}, "\x01er36\x02"},
	{sfT036{36}, "36\x01u\x02"},
	{svT037(37), "37"},
	{stT037(37), "\x01st37\x02"},
	{erT037{37}, "\x01er37\x02"},
	{sfT037{37}, "37\x01u\x02"},
	{svT038(38), "38"},
	{stT038(38), "\x01st38\x02"},
	{erT038{38}, "\x01er38\x02"},
	{sfT038{38}, "38\x01u\x02"},
	{svT039(39), "39"},
	{stT039(39), "\x01st39\x02"},
	{erT039{39}, "\x01er39\x02"},
	{sfT039{39}, "39\x01u\x02"},
	{svT040(40), "40"},
	{stT040(40), "\x01st40\x02"},
	{erT040{40}, "\x01er40\x02"},
	{sfT040{40}, "40\x01u\x02"},
	{svT041(41), "41"},
	{stT041(41), "\x01st41\x02"},
	{erT041{41}, "\x01er41\x02"},
	{sfT041{41}, "41\x01u\x02"},
	{svT042(42), "42"},
	{stT042(42), "\x01st42\x02"},
	{erT042{42}, "\x01er42\x02"},
	{sfT042{42}, "42\x01u\x02"},
	{svT043(43), "43"},
	{stT043(43), "\x01st43\x02"},
	{erT043{43}, "\x01er43\x02"},
	{sfT043{43}, "43\x01u\x02"},
	{svT044(44), "44"},
	{stT044(44), "\x01st44\x02"},
	{erT044{44}, "\x01er44\x02"},
	{sfT044{44}, "44\x01u\x02"},
	{svT045(45), "45"},
	{stT045(45), "\x01st45\x02"},
	{erT045{45}, "\x01er45\x02"},
	{sfT045{45}, "45\x01u\x02"},
	{svT046(46), "46"},
	{stT046(46), "\x01st46\x02"},
	{erT046{46}, "\x01er46\x02"},
	{sfT046{46}, "46\x01u\x02"},
	{svT047(47), "47"},
	{stT047(47), "\x01st47\x02"},
	{erT047{47}, "\x01er47\x02"},
	{sfT047{47}, "47\x01u\x02"},
	{svT048(48), "48"},
	{stT048(48), "\x01st48\x02"},
	{erT048{48}, "\x01er48\x02"},
	{sfT048{48}, "48\x01u\x02"},
	{svT049(49), "49"},
	{stT049(49), "\x01st49\x02"},
	{erT049{49}, "\x01er49\x02"},
	{sfT049{49}, "49\x01u\x02"},
	{svT050(50), "50"},
	{stT050(50), "\x01st50\x02"},
	{erT050{50}, "\x01er50\x02"},
	{sfT050{50}, "50\x01u\x02"},
	{svT051(51), "51"},
	{stT051(51), "\x01st51\x02"},
	{erT051{51}, "\x01er51\x02"},
	{sfT051{51}, "51\x01u\x02"},
	{svT052(52), "52"},
	{stT052(52), "\x01st52\x02"},
	{erT052{52}, "\x01er52\x02"},
	{sfT052{52}, "52\x01u\x02"},
	{svT053(53), "53"},
	{stT053(53), "\x01st53\x02"},
	{erT053{53}, "\x01er53\x02"},
	{sfT053{53}, "53\x01u\x02"},
	{svT054(54), "54"},
	{stT054(54), "\x01st54\x02"},
	{erT054{54}, "\x01er54\x02"},
	{sfT054{54}, "54\x01u\x02"},
	{svT055(55), "55"},
	{stT055(55), "\x01st55\x02"},
	{erT055{55}, "\x01er55\x02"},
	{sfT055{55}, "55\x01u\x02"},
	{svT056(56), "56"},
	{stT056(56), "\x01st56\x02"},
	{erT056{56}, "\x01er56\x02"},
	{sfT056{56}, "56\x01u\x02"},
	{svT057(57), "57"},
	{stT057(57), "\x01st57\x02"},
	{erT057{57}, "\x01er57\x02"},
	{sfT057{57}, "57\x01u\x02"},
	{svT058(58), "58"},
	{stT058(58), "\x01st58\x02"},
	{erT058{58}, "\x01er58\x02"},
	{sfT058{58}, "58\x01u\x02"},
	{svT059(59), "59"},
	{stT059(59), "\x01st59\x02"},
	{erT059{59}, "\x01er59\x02"},
	{sfT059{59}, "59\x01u\x02"},
	{svT060(60), "60"},
	{stT060(60), "\x01st60\x02"},
	{erT060{60}, "\x01er60\x02"},
	{sfT060{60}, "60\x01u\x02"},
	{svT061(61), "61"},
	{stT061(61), "\x01st61\x02"},
	{erT061{61}, "\x01er61\x02"},
	{sfT061{61}, "61\x01u\x02"},
	{svT062(62), "62"},
	{stT062(62), "\x01st62\x02"},
	{erT062{62}, "\x01er62\x02"},
	{sfT062{62}, "62\x01u\x02"},
	{svT063(63), "63"},
	{stT063(63), "\x01st63\x02"},
	{erT063{63}, "\x01er63\x02"},
	{sfT063{63}, "63\x01u\x02"},
}
