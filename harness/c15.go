package main

// C15 — HelperForErrorf returns the %w operand and the Sprintf text.

import (
	"errors"
	"fmt"
	"strings"
	"unicode/utf8"

	"github.com/cockroachdb/redact"
)

func init() {
	register("C15", &monitor{
		run: runC15,
		rule: "formats with 0-3 %w directives at every position among up to 2 other directives (complete), with flags/width/precision/explicit indexes on %w, operands at the %w positions drawn from errors (value, pointer, typed nil, stdlib, wrapping, +Formatter, +Stringer, +SafeFormatter), nil, non-errors, slices of errors, Safe/Unsafe-wrapped errors and non-errors, missing operands and bad indexes; every case is preceded by another HelperForErrorf call so that it runs on a recycled printer; " +
			"oracles: (1) <= 1 %w and fmt-compatible operands: stripped text == esc(fmt.Errorf.Error()), returned error == errors.Unwrap(fmt.Errorf); (2) text == Sprintf of the format with only the first %w turned into %v when its operand holds an error; (3) returned error == that operand iff exactly one %w reached an operand holding an error, else nil; " +
			"non-trivial = the format has at least one %w; distinct = distinct (format, operand kinds)",
	})
}

type c15dir struct {
	text  string // directive text, e.g. "%+8w" or "%[2]w"
	isW   bool
	index int // explicit 1-based operand index, 0 = sequential
	stars int // '*' operands taken sequentially before the operand (no explicit operand index)
}

type c15case struct {
	Format   string   `json:"format"`
	Operands []*D     `json:"operands"`
	Note     []string `json:"w_operands"`
}

var c15wForms = []string{"%w", "%+w", "%8w", "%-8w", "%.2w", "%#w", "%08w"}
var c15others = []string{"%v", "%d", "%s", "%%", "%5.1q", "%x"}

var c15wOperands = []*D{
	dS("Err", "e‹1›\nx"), dS("PErr", "pe"), {K: "NilPErr"}, dS("StdErr", "std"), dS("WrapErr", "wr"), dS("ErrFmter", "ef"), dS("ErrStringer", "es"),
	{K: "PSafeFmtErr", Sub: []*D{dS("sSafeString", "sf:"), dS("sUnsafeString", "u")}},
	// an error whose SafeFormat method itself prints with %w through its printer: a bad verb there, whatever the entry point
	{K: "PSafeFmtErr", Sub: []*D{dS("sSafeString", "sf:"), {K: "sPrintf", S: "in %w;", Sub: []*D{dS("Err", "inner")}}}},
	// an error whose SafeFormat method prints the verb it was given (a correctly used %w arrives as 'v')
	{K: "PSafeFmtErr", Sub: []*D{dS("sSafeString", "verb="), {K: "sVerb"}, dS("sUnsafeString", "u")}},
	{K: "nil"}, dN("int", 42), dS("string", "notanerror"), dS("Stringer", "str"),
	{K: "errs", Sub: []*D{dS("Err", "in-slice")}},
	dSub("Safe", dS("Err", "safe-err")), dSub("Unsafe", dS("Err", "unsafe-err")), dSub("Safe", dN("int", 7)), dSub("Unsafe", dSub("Safe", dS("PErr", "nested"))),
	dSub("S2", dS("Err", "in-field"), dN("int", 1)),
}

// holdsError: the operand (with Safe/Unsafe peeled off) is an error value; returns the descriptor of that error.
func holdsError(d *D) *D {
	for d.K == "Safe" || d.K == "Unsafe" {
		d = d.Sub[0]
	}
	switch d.K {
	case "Err", "PErr", "NilPErr", "StdErr", "WrapErr", "ErrFmter", "ErrStringer", "PSafeFmtErr", "SafeFmtErr", "PanicErr":
		return d
	}
	return nil
}

func fmtCompatibleOperand(d *D) bool {
	return !containsKind(d, "Safe", "Unsafe", "SafeFmtErr", "PSafeFmtErr", "SafeFmt", "RS", "RB", "Builder", "PBuilder", "SafeMsg") && !containsReadOnlyRedactable(d)
}

// undispatched: operands that printArg handles before method dispatch (nil and
// the basic types of its type switch), peeled of Safe/Unsafe.
func undispatched(d *D) bool {
	for d.K == "Safe" || d.K == "Unsafe" {
		d = d.Sub[0]
	}
	switch d.K {
	case "nil", "bool", "int", "int8", "int16", "int32", "int64", "uint", "uint8", "uint16", "uint32", "uint64", "uintptr", "float32", "float64", "complex64", "complex128", "string", "RS", "RB", "RSlit", "RBlit":
		return true
	case "bytes":
		return len(d.S) == 0 // the elements of a non-empty byte slice go through method dispatch one by one
	}
	return false
}

// c15check runs one case. dirs describes the directives in order.
func c15check(w *Worker, format string, dirs []c15dir, operands []*D, idx int64) {
	bc := newBuildCtx()
	bc.memo = map[*D]interface{}{} // error identity matters: every descriptor builds to one value
	args := bc.reals(operands)
	cs := func() interface{} {
		var kinds []string
		for _, o := range operands {
			kinds = append(kinds, o.K)
		}
		return map[string]interface{}{"format_q": q(format), "operands": operands, "operand_kinds": kinds}
	}
	// Which operand does each directive reach? (sequential / explicit index, as fmt does it)
	argNum := 0
	nW := 0
	type wUse struct {
		dir *c15dir
		op  *D
	}
	var uses []wUse // %w directives that reach an operand, in order
	ambiguous := false
	for i := range dirs {
		d := &dirs[i]
		if d.text == "%%" {
			continue
		}
		if d.index > 0 {
			if d.index > len(operands) {
				if d.isW {
					nW++
					ambiguous = true // BADINDEX: the directive never reaches an operand
				}
				continue
			}
			argNum = d.index - 1
		} else {
			argNum += d.stars
		}
		if d.isW {
			nW++
			if argNum < len(operands) {
				uses = append(uses, wUse{d, operands[argNum]})
			} else {
				ambiguous = true // MISSING
			}
		}
		argNum++
	}
	for _, u := range uses {
		o := u.op
		for o.K == "Safe" || o.K == "Unsafe" {
			o = o.Sub[0]
		}
		if strings.HasPrefix(o.K, "RV") {
			// a reflect.Value at a %w position: whether it "holds an error" is not
			// said by the statement (fmt.Errorf and the code disagree too): not decided
			w.Count("excluded_reflect_value_at_w", 1)
			return
		}
	}
	for _, u := range uses {
		if u.dir.text != "%w" && containsKind(u.op, "sSafeInt", "sSafeUint", "sSafeFloat") {
			// numeric safe emitters render under the flags of the directive, and
			// %+w keeps '+' as a flag where %+v turns it into the struct-field mode
			w.Count("excluded_flags_on_w_with_numeric_safe_emitters", 1)
			return
		}
	}
	// Property model: the first %w is the correctly used one if its operand holds
	// an error; every other %w is a bad verb; an error is returned iff there is exactly one %w.
	propCaptured := -1
	if len(uses) > 0 && holdsError(uses[0].op) != nil {
		propCaptured = 0
	}
	propReturns := nW == 1 && propCaptured == 0
	// Model of what the code does: a %w whose operand is nil or of a basic type is
	// reported as a bad verb *before* method dispatch and leaves the capture state
	// untouched, so a later %w is still accepted.
	actCaptured, actReturns := -1, false
	{
		armed := true
		for i, u := range uses {
			if undispatched(u.op) {
				continue
			}
			if armed && actCaptured < 0 && holdsError(u.op) != nil {
				actCaptured, actReturns = i, true
				continue
			}
			armed, actReturns = false, false
		}
	}
	knownDeviation := actCaptured != propCaptured || actReturns != propReturns
	for _, d := range dirs {
		if d.isW && strings.Contains(d.text, "#") {
			// %#w: Go 1.20+ treats it as %#v (Go syntax), the release the fork was
			// taken from as %v with the '#' flag: version-dependent, not decided here.
			w.Count("excluded_sharp_w", 1)
			return
		}
	}
	// Precede with another HelperForErrorf call: the case runs on a recycled printer.
	_, _ = redact.HelperForErrorf("warm %w up %d", errors.New("previous"), 77)
	ro := runRedact(routeErrorf, false, format, args)
	w.Eval(1)
	if ro.panicked {
		w.Violate("C15 panic", "HelperForErrorf panicked: "+pvalString(ro.pval)+" format="+q(format), cs())
		return
	}
	check := func(captured int, returns bool) string {
		// (3) the returned error
		var wantErr error
		if returns {
			e := bc.real(holdsError(uses[captured].op))
			wantErr, _ = e.(error)
		}
		if !ambiguous && !sameError(ro.err, wantErr) {
			return fmt.Sprintf("returned error %T(%v), want %T(%v)", ro.err, safeErrText(ro.err), wantErr, safeErrText(wantErr))
		}
		// (2) text == Sprintf with only the captured %w turned into %v
		f2 := format
		if captured >= 0 {
			f2 = replaceNth(format, uses[captured].dir.text, strings.Replace(uses[captured].dir.text, "w", "v", 1), occurrenceIndex(dirs, uses[captured].dir))
		}
		so := runRedact(routeS, false, f2, args)
		w.Eval(1)
		if so.panicked {
			w.Count("sprintf_panicked", 1)
		} else if so.out != ro.out {
			return "text " + q(ro.out) + " but Sprintf(" + q(f2) + ") gives " + q(so.out)
		}
		return ""
	}
	if why := check(propCaptured, propReturns); why != "" {
		if knownDeviation && check(actCaptured, actReturns) == "" {
			w.Violate("C15 %w accepted after an undispatched %w", "a %w whose operand is nil or of a basic type does not count as a use of %w: a later %w is still accepted ("+why+"); format="+q(format), cs())
			w.Count("known_deviation_observed", 1)
			return
		}
		w.Violate("C15 text-or-error", why+"; format="+q(format), cs())
		return
	}
	// (1) fmt.Errorf
	compat := nW <= 1 && !hasZeroMinus(format)
	for _, d := range dirs {
		if d.isW && strings.ContainsAny(d.text, "+#") {
			compat = false // go1.20+ treats %+w/%#w like %+v/%#v (struct-field / Go syntax); the fork predates that: version-dependent
		}
	}
	for _, o := range operands {
		if !fmtCompatibleOperand(o) {
			compat = false
		}
	}
	if compat {
		var fe error
		panicked := false
		func() {
			defer func() {
				if recover() != nil {
					panicked = true
				}
			}()
			fe = fmt.Errorf(format, args...)
		}()
		if !panicked && utf8.ValidString(fe.Error()) {
			if got, want := redact.RedactableString(ro.out).StripMarkers(), esc(fe.Error()); got != want {
				w.Violate("C15 errorf-text", "stripped text "+q(got)+" but fmt.Errorf gives "+q(want)+"; format="+q(format), cs())
				return
			}
			if !sameError(ro.err, errors.Unwrap(fe)) {
				w.Violate("C15 errorf-unwrap", fmt.Sprintf("returned error %T(%v) but errors.Unwrap(fmt.Errorf) is %T(%v); format=%q", ro.err, safeErrText(ro.err), errors.Unwrap(fe), safeErrText(errors.Unwrap(fe)), format), cs())
				return
			}
			w.Count("compared_with_fmt.Errorf", 1)
		}
	}
	if nW > 0 {
		var kinds string
		for _, o := range operands {
			kinds += o.K + ","
		}
		w.Nontrivial(hashStrs(format, kinds))
	}
	if idx%40009 == 11 {
		w.Sample(map[string]interface{}{"format_q": q(format), "operands": operands, "text_q": q(ro.out), "returned_error": fmt.Sprintf("%T", ro.err)})
	}
}

func occurrenceIndex(dirs []c15dir, target *c15dir) int {
	n := 0
	for i := range dirs {
		if &dirs[i] == target {
			return n
		}
		if dirs[i].text == target.text {
			n++
		}
	}
	return n
}

// replaceNth replaces the n-th (0-based) occurrence of old in s.
func replaceNth(s, old, new string, n int) string {
	pos := 0
	for i := 0; ; i++ {
		j := strings.Index(s[pos:], old)
		if j < 0 {
			return s
		}
		if i == n {
			return s[:pos+j] + new + s[pos+j+len(old):]
		}
		pos += j + len(old)
	}
}

func sameError(a, b error) (eq bool) {
	defer func() {
		if recover() != nil {
			// uncomparable dynamic type (a struct holding a slice or func): same type is all that can be said
			eq = a != nil && b != nil && fmt.Sprintf("%T", a) == fmt.Sprintf("%T", b)
		}
	}()
	return a == b
}

func safeErrText(e error) (s string) {
	defer func() {
		if recover() != nil {
			s = "<Error() panicked>"
		}
	}()
	if e == nil {
		return "<nil>"
	}
	return e.Error()
}

func runC15(c *Ctx) {
	// (a) complete: sequences of up to 3 directives over {%w forms (first form only for the product), other directives}, with %w at every position,
	// each %w position taking every operand of the catalogue.
	type tmpl struct {
		dirs []c15dir
	}
	var tmpls []tmpl
	slots := []c15dir{{"%w", true, 0, 0}, {"%v", false, 0, 0}, {"%d", false, 0, 0}, {"%%", false, 0, 0}}
	for n := 1; n <= 3; n++ {
		total := 1
		for i := 0; i < n; i++ {
			total *= len(slots)
		}
		for m := 0; m < total; m++ {
			var ds []c15dir
			x := m
			for i := 0; i < n; i++ {
				ds = append(ds, slots[x%len(slots)])
				x /= len(slots)
			}
			tmpls = append(tmpls, tmpl{ds})
		}
	}
	type job struct {
		format   string
		dirs     []c15dir
		operands []*D
	}
	var jobs []job
	lits := []string{"a ", " b ", ": ", " c"}
	for _, t := range tmpls {
		// choose operands: for %w positions iterate the catalogue (one position varies at a time, the others take an error)
		var wpos []int
		for i, d := range t.dirs {
			if d.isW {
				wpos = append(wpos, i)
			}
		}
		variants := [][]*D{nil}
		if len(wpos) > 0 {
			variants = nil
			for _, vary := range wpos {
				for _, cand := range c15wOperands {
					ops := make([]*D, len(t.dirs))
					for i := range t.dirs {
						if i == vary {
							ops[i] = cand
						} else if t.dirs[i].isW {
							ops[i] = dS("PErr", "other"+itoa(i))
						}
					}
					variants = append(variants, ops)
				}
			}
		}
		for _, v := range variants {
			var f strings.Builder
			var ops []*D
			for i, d := range t.dirs {
				f.WriteString(lits[i])
				f.WriteString(d.text)
				if d.text == "%%" {
					continue
				}
				if v != nil && v[i] != nil {
					ops = append(ops, v[i])
				} else if d.text == "%d" {
					ops = append(ops, dN("int", int64(i)+5))
				} else {
					ops = append(ops, dS("string", "s"+itoa(i)))
				}
			}
			f.WriteString(lits[3])
			jobs = append(jobs, job{f.String(), t.dirs, ops})
			// missing last operand
			if len(ops) > 0 {
				jobs = append(jobs, job{f.String(), t.dirs, ops[:len(ops)-1]})
			}
		}
	}
	// flags/width/indexes on a single %w
	for _, wf := range c15wForms {
		for _, cand := range c15wOperands {
			jobs = append(jobs, job{"x " + wf + " y", []c15dir{{wf, true, 0, 0}}, []*D{cand}})
			jobs = append(jobs, job{"x %d " + wf + " y", []c15dir{{"%d", false, 0, 0}, {wf, true, 0, 0}}, []*D{dN("int", 3), cand}})
		}
	}
	// star widths and precisions, alone and combined with explicit indexes (an index may follow the star)
	for _, cand := range c15wOperands {
		w8 := dN("int", 8)
		jobs = append(jobs,
			job{"x %*w y", []c15dir{{"%*w", true, 0, 1}}, []*D{w8, cand}},
			job{"x %-*w y", []c15dir{{"%-*w", true, 0, 1}}, []*D{w8, cand}},
			job{"x %.*w y", []c15dir{{"%.*w", true, 0, 1}}, []*D{dN("int", 3), cand}},
			job{"x %*.*w y", []c15dir{{"%*.*w", true, 0, 2}}, []*D{w8, dN("int", 3), cand}},
			job{"x %[1]*[2]w y", []c15dir{{"%[1]*[2]w", true, 2, 0}}, []*D{w8, cand}},
			job{"x %[2]*[1]w y", []c15dir{{"%[2]*[1]w", true, 1, 0}}, []*D{cand, w8}},
			job{"x %*[2]w y", []c15dir{{"%*[2]w", true, 2, 0}}, []*D{w8, cand}},
			job{"x %.*[2]w y", []c15dir{{"%.*[2]w", true, 2, 0}}, []*D{dN("int", 3), cand}},
			job{"x %[1]*w y", []c15dir{{"%[1]*w", true, 2, 0}}, []*D{w8, cand}},
			job{"%d x %[2]*[3]w y", []c15dir{{"%d", false, 0, 0}, {"%[2]*[3]w", true, 3, 0}}, []*D{dN("int", 1), w8, cand}},
		)
	}
	for _, cand := range c15wOperands {
		jobs = append(jobs,
			job{"%[2]w then %[1]d", []c15dir{{"%[2]w", true, 2, 0}, {"%[1]d", false, 1, 0}}, []*D{dN("int", 3), cand}},
			job{"%[1]w and again %[1]w", []c15dir{{"%[1]w", true, 1, 0}, {"%[1]w", true, 1, 0}}, []*D{cand}},
			job{"%[3]w", []c15dir{{"%[3]w", true, 3, 0}}, []*D{cand}},
			job{"%[1]v %[1]w", []c15dir{{"%[1]v", false, 1, 0}, {"%[1]w", true, 1, 0}}, []*D{cand}},
		)
	}
	c.AddCount("enumerated_cases", int64(len(jobs)))
	c.ParallelFor(int64(len(jobs)), func(w *Worker, i int64) {
		j := jobs[i]
		c15check(w, j.format, append([]c15dir(nil), j.dirs...), j.operands, i)
	})
	// (b) random: %w forms mixed with random directives and operands of the universe
	o := genOpts{invalidUTF8: false, redactKinds: true, panics: false, safeKinds: true, maxDepth: 2}
	n := c.pick(1500000, 20000000)
	c.ParallelFor(n, func(w *Worker, i int64) {
		r := newRng(c.Seed, 0xc15, uint64(i))
		k := 1 + r.Intn(4)
		var dirs []c15dir
		var ops []*D
		var f strings.Builder
		for j := 0; j < k; j++ {
			f.WriteString(randLit(r, genOpts{}))
			if r.Chance(2, 5) {
				wf := c15wForms[r.Intn(len(c15wForms))]
				dirs = append(dirs, c15dir{wf, true, 0, 0})
				f.WriteString(wf)
				if r.Chance(3, 4) {
					ops = append(ops, c15wOperands[r.Intn(len(c15wOperands))])
				} else {
					ops = append(ops, randD(r, 2, o))
				}
			} else {
				of := c15others[r.Intn(len(c15others))]
				dirs = append(dirs, c15dir{of, false, 0, 0})
				f.WriteString(of)
				if of != "%%" {
					ops = append(ops, randD(r, 2, o))
				}
			}
		}
		if r.Chance(1, 8) && len(ops) > 0 {
			ops = ops[:len(ops)-1]
		}
		format := f.String()
		if strings.Contains(strings.ReplaceAll(format, "%%", ""), "%%") {
			return
		}
		// literals may contain "%%": fine, they are not directives
		c15check(w, format, dirs, ops, i)
		w.Count("random_cases", 1)
	})
	c.res.Bound = "all sequences of <= 3 directives over {%w, %v, %d, %%} x 20 operand kinds at each %w position (one varied at a time), 7 flag/width forms, 4 index forms and 10 star forms of %w"
	c.res.Assumptions = []string{"go1.23.5 fmt.Errorf/errors.Unwrap are the reference for formats with at most one %w", "a second %w that never reaches an operand (MISSING/BADINDEX) is ambiguous in the statement: only the text is asserted there"}
}
