#!/usr/bin/env python3
"""Validate evidence/*.json and MANIFEST.json against the schemas (uses the tooling venv's jsonschema)."""
import json, sys, glob
import jsonschema
ok = True
es = json.load(open('/root/.vp/EVIDENCE.schema.json'))
for f in sorted(glob.glob('/verif/evidence/*.json')):
    try:
        jsonschema.validate(json.load(open(f)), es)
    except Exception as e:
        ok = False; print('INVALID', f, str(e)[:300])
try:
    jsonschema.validate(json.load(open('/verif/MANIFEST.json')), json.load(open('/root/.vp/MANIFEST.schema.json')))
except Exception as e:
    ok = False; print('INVALID MANIFEST', str(e)[:300])
print('ok' if ok else 'FAILED')
sys.exit(0 if ok else 1)
