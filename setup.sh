#!/bin/sh
# Build the harness once so that the Go build cache is warm (offline, from files on disk only).
set -e
export GOFLAGS=-mod=mod GOPROXY=off GOSUMDB=off GOTOOLCHAIN=local
mkdir -p /verif/.build /verif/evidence /verif/replay
cd /verif/harness
go build -tags verif -o /verif/.build/rvmon.setup . 
go build -tags verif -race -o /verif/.build/rvmon.setup.race . || echo "race build failed (C12 would be inconclusive)"
rm -f /verif/.build/rvmon.setup /verif/.build/rvmon.setup.race
echo setup ok
